//! SplitMix64 / xoshiro256** with purpose-derived streams. No OS randomness anywhere.

#[derive(Clone, Debug)]
pub struct Prng {
    s: [u64; 4],
}

pub fn splitmix(x: &mut u64) -> u64 {
    *x = x.wrapping_add(0x9E37_79B9_7F4A_7C15);
    let mut z = *x;
    z = (z ^ (z >> 30)).wrapping_mul(0xBF58_476D_1CE4_E5B9);
    z = (z ^ (z >> 27)).wrapping_mul(0x94D0_49BB_1331_11EB);
    z ^ (z >> 31)
}

/// Stable 64-bit mix of a list of words (stream derivation).
pub fn mix(words: &[u64]) -> u64 {
    let mut h: u64 = 0x243F_6A88_85A3_08D3;
    for w in words {
        h ^= *w;
        let mut t = h;
        h = splitmix(&mut t) ^ t.rotate_left(17);
    }
    h
}

pub fn purpose(name: &str) -> u64 {
    let mut h: u64 = 0xcbf2_9ce4_8422_2325;
    for b in name.bytes() {
        h ^= b as u64;
        h = h.wrapping_mul(0x0000_0100_0000_01B3);
    }
    h
}

impl Prng {
    pub fn new(seed: u64) -> Self {
        let mut x = seed;
        let s = [
            splitmix(&mut x),
            splitmix(&mut x),
            splitmix(&mut x),
            splitmix(&mut x),
        ];
        Prng { s }
    }

    /// Independent stream for (seed, run, purpose).
    pub fn derive(seed: u64, run: u64, what: &str) -> Self {
        Prng::new(mix(&[seed, run, purpose(what)]))
    }

    pub fn next_u64(&mut self) -> u64 {
        let result = self.s[1].wrapping_mul(5).rotate_left(7).wrapping_mul(9);
        let t = self.s[1] << 17;
        self.s[2] ^= self.s[0];
        self.s[3] ^= self.s[1];
        self.s[1] ^= self.s[2];
        self.s[0] ^= self.s[3];
        self.s[2] ^= t;
        self.s[3] = self.s[3].rotate_left(45);
        result
    }

    /// Uniform in 0..n (n > 0).
    pub fn below(&mut self, n: u64) -> u64 {
        if n <= 1 {
            return 0;
        }
        // multiply-shift; tiny bias irrelevant here
        ((self.next_u64() as u128 * n as u128) >> 64) as u64
    }

    pub fn range(&mut self, lo: i64, hi_incl: i64) -> i64 {
        lo + self.below((hi_incl - lo + 1) as u64) as i64
    }

    pub fn usize(&mut self, n: usize) -> usize {
        self.below(n as u64) as usize
    }

    pub fn chance(&mut self, num: u64, den: u64) -> bool {
        self.below(den) < num
    }

    pub fn pick<'a, T>(&mut self, xs: &'a [T]) -> &'a T {
        &xs[self.usize(xs.len())]
    }

    pub fn shuffle<T>(&mut self, xs: &mut [T]) {
        for i in (1..xs.len()).rev() {
            let j = self.usize(i + 1);
            xs.swap(i, j);
        }
    }

    pub fn fill(&mut self, buf: &mut [u8]) {
        for chunk in buf.chunks_mut(8) {
            let v = self.next_u64().to_le_bytes();
            chunk.copy_from_slice(&v[..chunk.len()]);
        }
    }
}
