//! The real CLI layer: /repo/crates/compiler/src/main.rs is included textually, so clap
//! definitions, execute_check / execute_build / execute_link, print_dumps and
//! report_compilation_error are the shipped code. Only `run_cli`'s dispatch and the tail of
//! `execute_run` (spawning `go run`, impossible here) are replaced by `entry` / `run_stub`.

#[derive(Debug, Clone, serde::Serialize)]
pub struct DiagInfo {
    pub stage: String,
    pub error: bool,
    pub message: String,
    pub range: Option<(u32, u32)>,
}

pub enum CliOut {
    /// check / build / link finished successfully (artifacts are in the sandbox)
    Done,
    /// `run` compiled the program (Go execution is the simulated runtime's business)
    Compiled(Box<Compiled>),
    /// `run` reported a compilation error through the real report_compilation_error
    CompileError {
        kind: &'static str,
        diags: Vec<DiagInfo>,
        formatted: Vec<String>,
    },
}

pub struct Compiled {
    pub go_text: String,
    pub go: compiler::go::goast::File,
    pub tast: compiler::tast::File,
    pub genv: compiler::env::GlobalTypeEnv,
}

#[allow(dead_code, unused_imports, clippy::all)]
mod real {
    include!("/repo/crates/compiler/src/main.rs");

    use super::{CliOut, Compiled, DiagInfo};

    pub fn diag_infos(d: &diagnostics::Diagnostics) -> Vec<DiagInfo> {
        d.iter()
            .map(|x| DiagInfo {
                stage: x.stage().as_str().to_string(),
                error: x.severity() == diagnostics::Severity::Error,
                message: x.message().to_string(),
                range: x.range().map(|r| (u32::from(r.start()), u32::from(r.end()))),
            })
            .collect()
    }

    pub fn formatted(err: &CompilationError, src: &str) -> (&'static str, Vec<String>) {
        match err {
            CompilationError::Parser { diagnostics } => {
                ("parser", format_parser_diagnostics(diagnostics, src))
            }
            CompilationError::Lower { diagnostics } => (
                "lower",
                diagnostics.iter().map(|d| d.message().to_string()).collect(),
            ),
            CompilationError::Typer { diagnostics } => {
                ("typer", format_typer_diagnostics(diagnostics))
            }
            CompilationError::Compile { diagnostics } => {
                ("compile", format_compile_diagnostics(diagnostics, src))
            }
        }
    }

    fn run_stub(options: RunOptions) -> anyhow::Result<CliOut> {
        let src = fs::read_to_string(&options.file_path).with_context(|| {
            format!("error reading goml file: {}", options.file_path.display())
        })?;

        let compilation = match compile(&options.file_path, &src) {
            Ok(compilation) => compilation,
            Err(err) => {
                let diags = diag_infos(err.diagnostics());
                // the real reporting path (this is where positions meet text)
                report_compilation_error(&options.file_path, &src, err.clone());
                let (kind, formatted) = formatted(&err, &src);
                return Ok(CliOut::CompileError {
                    kind,
                    diags,
                    formatted,
                });
            }
        };

        if !options.dumps.is_empty() {
            print_dumps(&compilation, &options.dumps);
        }

        let go_text = compilation.go.to_pretty(&compilation.goenv, PRETTY_WIDTH);
        Ok(CliOut::Compiled(Box::new(Compiled {
            go_text,
            go: compilation.go,
            tast: compilation.tast,
            genv: compilation.genv,
        })))
    }

    /// Same dispatch as `run_cli`, on an explicit argument vector and without process::exit.
    pub fn entry(args: &[String]) -> anyhow::Result<CliOut> {
        let cli = Cli::try_parse_from(args.iter().map(|s| s.as_str()))
            .map_err(|e| anyhow!("argument error: {e}"))?;
        match cli.command {
            Commands::Run(args) => {
                let dumps = run_dumps(&args);
                run_stub(RunOptions {
                    file_path: args.file,
                    dumps,
                })
            }
            Commands::Check(args) => execute_check(PackageCommandOptions {
                package: args.package,
                input_files: args.input,
                interface_paths: args.interface_path,
                output: args.output,
            })
            .map(|_| CliOut::Done),
            Commands::Build(args) => execute_build(PackageCommandOptions {
                package: args.package,
                input_files: args.input,
                interface_paths: args.interface_path,
                output: args.output,
            })
            .map(|_| CliOut::Done),
            Commands::Link(args) => execute_link(LinkOptions {
                input_cores: args.input,
                output: args.output,
            })
            .map(|_| CliOut::Done),
        }
    }
}

pub use real::{diag_infos, entry, formatted};
