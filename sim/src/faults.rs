//! Storage faults on stored bytes: corruption, single-field JSON corruption, foreign-version
//! artifacts.

use crate::prng::Prng;
use serde_json::Value;

#[derive(Clone, Debug, PartialEq, serde::Serialize, serde::Deserialize)]
pub enum ByteFault {
    BitFlip { offset_permille: u32, bit: u8 },
    Truncate { at_permille: u32 },
    TrailingGarbage,
    Empty,
}

pub fn random_byte_fault(p: &mut Prng) -> ByteFault {
    match p.below(7) {
        0 | 1 | 2 => ByteFault::BitFlip { offset_permille: p.below(1000) as u32, bit: p.below(8) as u8 },
        3 | 4 => ByteFault::Truncate { at_permille: p.below(1000) as u32 },
        5 => ByteFault::TrailingGarbage,
        _ => ByteFault::Empty,
    }
}

pub fn apply_byte_fault(bytes: &[u8], f: &ByteFault) -> Vec<u8> {
    let mut b = bytes.to_vec();
    match f {
        ByteFault::BitFlip { offset_permille, bit } => {
            if !b.is_empty() {
                let i = (b.len() as u64 * *offset_permille as u64 / 1000) as usize;
                let i = i.min(b.len() - 1);
                b[i] ^= 1 << bit;
            }
        }
        ByteFault::Truncate { at_permille } => {
            let n = (b.len() as u64 * *at_permille as u64 / 1000) as usize;
            b.truncate(n.min(b.len().saturating_sub(1)));
        }
        ByteFault::TrailingGarbage => b.extend_from_slice(b"\n{\"x\": 1}"),
        ByteFault::Empty => b.clear(),
    }
    b
}

/// All JSON pointers of a document, leaves and containers.
fn pointers(v: &Value, here: String, out: &mut Vec<String>) {
    out.push(here.clone());
    match v {
        Value::Object(m) => {
            for (k, x) in m {
                pointers(x, format!("{}/{}", here, k.replace('~', "~0").replace('/', "~1")), out);
            }
        }
        Value::Array(a) => {
            for (i, x) in a.iter().enumerate() {
                pointers(x, format!("{here}/{i}"), out);
            }
        }
        _ => {}
    }
}

pub fn all_pointers(v: &Value) -> Vec<String> {
    let mut out = Vec::new();
    pointers(v, String::new(), &mut out);
    out.retain(|p| !p.is_empty());
    out
}

#[derive(Clone, Debug, PartialEq, serde::Serialize, serde::Deserialize)]
pub struct FieldFault {
    pub pointer: String,
    pub mutation: String,
}

/// Mutate exactly one field of a JSON document so that the parsed value changes. Returns the
/// new text (pretty printed like goml writes it) and a description, or None if no mutation of
/// that node changes anything.
pub fn mutate_field(doc: &Value, pointer: &str, p: &mut Prng) -> Option<(Value, FieldFault)> {
    let mut new = doc.clone();
    let parent_ptr = match pointer.rfind('/') {
        Some(i) => &pointer[..i],
        None => "",
    };
    let key = pointer.rsplit('/').next().unwrap_or("").replace("~1", "/").replace("~0", "~");
    let node = doc.pointer(pointer)?.clone();
    let mutation;
    // any node can simply disappear from its parent (a deleted map entry / list element)
    if p.chance(1, 6) {
        let mut gone = doc.clone();
        let parent = if parent_ptr.is_empty() { Some(&mut gone) } else { gone.pointer_mut(parent_ptr) };
        let removed = match parent {
            Some(Value::Object(m)) => m.remove(&key).is_some(),
            Some(Value::Array(a)) => match key.parse::<usize>() {
                Ok(i) if i < a.len() => {
                    a.remove(i);
                    true
                }
                _ => false,
            },
            _ => false,
        };
        if removed && gone != *doc {
            return Some((gone, FieldFault { pointer: pointer.to_string(), mutation: "entry-deleted".to_string() }));
        }
    }
    let choice = p.below(5);
    let replaced: Option<Value> = match (&node, choice) {
        (Value::Number(_), 3) => {
            mutation = "number-huge".to_string();
            Some(Value::from(u64::MAX))
        }
        (Value::Number(_), 4) => {
            mutation = "number-negative-or-fractional".to_string();
            Some(if p.chance(1, 2) { Value::from(-7) } else { Value::from(1.5) })
        }
        (Value::Number(n), _) => {
            mutation = "number+1".to_string();
            if let Some(i) = n.as_i64() {
                Some(Value::from(i.wrapping_add(1)))
            } else if let Some(u) = n.as_u64() {
                Some(Value::from(u.wrapping_sub(1)))
            } else {
                Some(Value::from(n.as_f64().unwrap_or(0.0) + 1.5))
            }
        }
        (Value::String(s), 0) if !s.is_empty() => {
            mutation = "string-truncated".to_string();
            let mut t = s.clone();
            t.pop();
            Some(Value::String(t))
        }
        (Value::String(s), 1) if !s.is_empty() => {
            // one character replaced by a multi-byte one (a name or hash that is no longer ASCII)
            mutation = "string-non-ascii-char".to_string();
            let mut cs: Vec<char> = s.chars().collect();
            let i = p.usize(cs.len());
            cs[i] = ['\u{e9}', '\u{4e2d}', '\u{1f600}'][p.usize(3)];
            Some(Value::String(cs.into_iter().collect()))
        }
        (Value::String(s), 2) if !s.is_empty() => {
            mutation = "string-emptied".to_string();
            Some(Value::String(String::new()))
        }
        (Value::String(s), _) => {
            mutation = "string-changed".to_string();
            Some(Value::String(format!("{s}x")))
        }
        (Value::Bool(b), _) => {
            mutation = "bool-flipped".to_string();
            Some(Value::Bool(!b))
        }
        (Value::Null, _) => {
            mutation = "null-to-zero".to_string();
            Some(Value::from(0))
        }
        (Value::Array(a), 0) if a.len() >= 2 => {
            mutation = "array-swap".to_string();
            let mut b = a.clone();
            let i = p.usize(b.len() - 1);
            b.swap(i, i + 1);
            if b == *a { None } else { Some(Value::Array(b)) }
        }
        (Value::Array(a), 1) if !a.is_empty() => {
            mutation = "array-duplicate-element".to_string();
            let mut b = a.clone();
            let i = p.usize(b.len());
            let x = b[i].clone();
            b.insert(i, x);
            Some(Value::Array(b))
        }
        (Value::Array(a), _) if !a.is_empty() => {
            mutation = "array-drop-element".to_string();
            let mut b = a.clone();
            let i = p.usize(b.len());
            b.remove(i);
            Some(Value::Array(b))
        }
        (Value::Array(_), _) => {
            mutation = "array-to-null".to_string();
            Some(Value::Null)
        }
        (Value::Object(_), 0) | (Value::Object(_), 1) => {
            mutation = "object-to-null".to_string();
            Some(Value::Null)
        }
        (Value::Object(_), _) => {
            mutation = "key-deleted".to_string();
            None
        }
    };
    match replaced {
        Some(v) => {
            *new.pointer_mut(pointer)? = v;
        }
        None => {
            if mutation != "key-deleted" {
                return None;
            }
            // delete this key from its parent object (or element from its parent array)
            let parent = if parent_ptr.is_empty() { Some(&mut new) } else { new.pointer_mut(parent_ptr) }?;
            match parent {
                Value::Object(m) => {
                    m.remove(&key)?;
                }
                Value::Array(a) => {
                    let i: usize = key.parse().ok()?;
                    if i < a.len() {
                        a.remove(i);
                    }
                }
                _ => return None,
            }
        }
    }
    if new == *doc {
        return None;
    }
    Some((new, FieldFault { pointer: pointer.to_string(), mutation }))
}

/// What a compiler with another FORMAT_VERSION / COMPILER_ABI would have written for this
/// interface: version fields changed *and* interface_hash recomputed with goml's own hash
/// function, so nothing but the version check can reject it.
pub fn foreign_version_interface(bytes: &[u8], p: &mut Prng) -> Option<Vec<u8>> {
    let mut unit: compiler::artifact::InterfaceUnit = serde_json::from_slice(bytes).ok()?;
    match p.below(4) {
        0 => unit.format_version += 1 + p.below(3) as u32,
        1 => unit.compiler_abi += 1 + p.below(7) as u32,
        // written by an *older* release
        2 if unit.format_version > 0 => unit.format_version -= 1,
        2 => unit.format_version += 1,
        _ if unit.compiler_abi > 0 => unit.compiler_abi -= 1,
        _ => unit.compiler_abi += 1,
    }
    unit.interface_hash = unit.compute_hash();
    serde_json::to_string_pretty(&unit).ok().map(|s| s.into_bytes())
}

/// Same for a core file: either the core's own version fields, or those of the embedded
/// interface (with its hash recomputed).
pub fn foreign_version_core(bytes: &[u8], p: &mut Prng) -> Option<(Vec<u8>, &'static str)> {
    let mut unit: compiler::artifact::CoreUnit = serde_json::from_slice(bytes).ok()?;
    let which = if p.chance(1, 3) {
        unit.format_version += 1;
        "core-version-fields"
    } else if p.chance(1, 2) && unit.format_version > 0 && unit.interface.format_version > 0 {
        // a complete, self-consistent artifact of an older release: every version field lowered
        // together, hash recomputed
        unit.format_version -= 1;
        unit.interface.format_version -= 1;
        unit.interface.interface_hash = unit.interface.compute_hash();
        "all-version-fields-of-an-older-release"
    } else {
        unit.interface.compiler_abi += 6;
        unit.interface.format_version += 1;
        unit.interface.interface_hash = unit.interface.compute_hash();
        "embedded-interface-version-fields"
    };
    serde_json::to_string_pretty(&unit).ok().map(|s| (s.into_bytes(), which))
}

/// First JSON pointer at which two documents differ (None if equal).
pub fn first_difference(a: &Value, b: &Value, here: String) -> Option<String> {
    match (a, b) {
        (Value::Object(x), Value::Object(y)) => {
            for (k, v) in x {
                match y.get(k) {
                    Some(w) => {
                        if let Some(d) = first_difference(v, w, format!("{here}/{k}")) {
                            return Some(d);
                        }
                    }
                    None => return Some(format!("{here}/{k}")),
                }
            }
            for k in y.keys() {
                if !x.contains_key(k) {
                    return Some(format!("{here}/{k}"));
                }
            }
            None
        }
        (Value::Array(x), Value::Array(y)) => {
            for (i, (v, w)) in x.iter().zip(y.iter()).enumerate() {
                if let Some(d) = first_difference(v, w, format!("{here}/{i}")) {
                    return Some(d);
                }
            }
            if x.len() != y.len() { Some(format!("{here}/{}", x.len().min(y.len()))) } else { None }
        }
        _ => {
            if a == b { None } else { Some(here) }
        }
    }
}

fn is_hash(s: &str) -> bool {
    s.len() == 64 && s.bytes().all(|b| b.is_ascii_hexdigit())
}

/// Every 64-hex-digit string value of a document (interface hashes, dependency pins).
pub fn hashes_in(v: &Value, out: &mut Vec<String>) {
    match v {
        Value::String(s) if is_hash(s) => out.push(s.clone()),
        Value::Object(m) => m.values().for_each(|x| hashes_in(x, out)),
        Value::Array(a) => a.iter().for_each(|x| hashes_in(x, out)),
        _ => {}
    }
}

/// Replace one hash-valued field by another *valid-looking* hash taken from `pool` (e.g. a
/// dependency pin rewritten to the dependency's current interface hash).
pub fn replace_hash(doc: &Value, pool: &[String], p: &mut Prng) -> Option<(Value, FieldFault)> {
    let ptrs: Vec<String> = all_pointers(doc)
        .into_iter()
        .filter(|ptr| doc.pointer(ptr).and_then(|v| v.as_str()).map(is_hash).unwrap_or(false))
        .collect();
    if ptrs.is_empty() || pool.is_empty() {
        return None;
    }
    for _ in 0..8 {
        let ptr = p.pick(&ptrs).clone();
        let cur = doc.pointer(&ptr)?.as_str()?.to_string();
        let cands: Vec<&String> = pool.iter().filter(|h| **h != cur).collect();
        if cands.is_empty() {
            continue;
        }
        let new = (*p.pick(&cands)).clone();
        let mut nd = doc.clone();
        *nd.pointer_mut(&ptr)? = Value::String(new);
        return Some((nd, FieldFault { pointer: ptr, mutation: "hash-replaced-by-another-hash".to_string() }));
    }
    None
}
