//! The seams. The harness binary defines the libc symbols Rust's std resolves at link time
//! (getrandom, open64, read, write, close, opendir, readdir64, closedir, statx, mkdir), so that
//! std::fs and std::collections::HashMap inside the *unmodified* goml crates talk to the simulator.
//!
//! A thread without a SimCtx (thread-local pointer null) gets pure pass-through behaviour.
//! With a SimCtx, only paths below the sandbox root and file descriptors opened there are
//! simulated; stdout/stderr of the simulated process are captured.
//!
//! Everything here is panic-free (a panic across `extern "C"` aborts).

#![allow(clippy::missing_safety_doc)]

use crate::prng::Prng;
use libc::{c_char, c_int, c_uint, c_void, size_t, ssize_t};
use std::cell::Cell;
use std::sync::Arc;
use std::sync::atomic::{AtomicU64, Ordering};

#[derive(Clone, Copy, Debug, PartialEq, Eq, Hash, serde::Serialize, serde::Deserialize)]
pub enum Call {
    Open,
    Read,
    Write,
    Close,
    Opendir,
    Readdir,
    Stat,
    Mkdir,
    Rename,
    Unlink,
    Sync,
}
pub const NCALLS: usize = 11;
impl Call {
    pub fn idx(self) -> usize {
        self as usize
    }
    pub fn name(self) -> &'static str {
        match self {
            Call::Open => "open",
            Call::Read => "read",
            Call::Write => "write",
            Call::Close => "close",
            Call::Opendir => "opendir",
            Call::Readdir => "readdir",
            Call::Stat => "stat",
            Call::Mkdir => "mkdir",
            Call::Rename => "rename",
            Call::Unlink => "unlink",
            Call::Sync => "fsync",
        }
    }
}

#[derive(Clone, Debug, PartialEq, serde::Serialize, serde::Deserialize)]
pub enum Action {
    /// fail the call with this errno, no effect
    Errno(i32),
    /// read/write at most n bytes in this call (std loops)
    Short(usize),
    /// write n bytes then the *next* write on this fd fails with errno (disk full mid-file)
    ShortThenErr(usize, i32),
    /// the process dies before this call takes effect
    CrashBefore,
    /// write: n bytes reach the file, then the process dies
    CrashAfterBytes(usize),
    /// stat lies: report exists (true) / ENOENT (false) regardless of truth
    StatLie(bool),
}

#[derive(Clone, Debug, PartialEq, serde::Serialize, serde::Deserialize)]
pub struct FaultRule {
    pub call: Call,
    /// nth sandbox call of this kind by this process (0-based)
    pub nth: u32,
    pub action: Action,
}

#[derive(Clone, Debug, serde::Serialize)]
pub struct Event {
    pub seq: u32,
    pub pid: usize,
    pub call: &'static str,
    pub path: String,
    pub req: i64,
    pub res: i64,
    pub fault: Option<String>,
}

struct DirState {
    dirp: usize,
    entries: Vec<libc::dirent64>,
    cursor: usize,
    drained: bool,
    path: String,
}

pub trait GateLike: Send + Sync {
    fn park(&self, pid: usize);
}

pub struct SimCtx {
    pub root: Vec<u8>,
    pub entropy: Prng,
    pub readdir_seed: u64,
    pub plan: Vec<FaultRule>,
    pub chunk: usize,
    pub crash_at: Option<u32>,
    pub dead: bool,
    pub seq: u32,
    pub counts: [u32; NCALLS],
    fds: Vec<(c_int, String, Option<i32>)>,
    dirs: Vec<DirState>,
    pub log: Vec<Event>,
    pub fired: Vec<String>,
    pub gate: Option<Arc<dyn GateLike>>,
    pub pid: usize,
    pub getrandom_calls: u32,
    pub stdout: Vec<u8>,
    pub stderr: Vec<u8>,
    pub capture_stdio: bool,
    /// when set, the bytes every sandbox read returned are kept, per opened file, in order
    pub capture_reads: bool,
    pub reads: Vec<(String, Vec<u8>)>,
    /// set by the watchdog when it gives up on this process: the runaway thread is parked at
    /// its next sandbox call instead of consuming memory and CPU for the rest of the run
    pub abandoned: Arc<std::sync::atomic::AtomicBool>,
    /// set by the shim when the process exceeds `SYSCALL_LIMIT`
    pub runaway: Arc<std::sync::atomic::AtomicBool>,
    /// file timestamps come from a simulated clock: 0 = the file system's own, 1 = stands still,
    /// 2 = runs backwards, 3 = skewed per file (see `freeze_times`)
    pub clock_mode: u8,
    pub clock_seed: u64,
    /// start-order seam for threads this process creates (see `ThreadGroup`)
    pub threads: Option<Arc<ThreadGroup>>,
    pub threads_created: u32,
    /// the nth thread creation of this process is refused with EAGAIN
    pub thread_fail: Option<u32>,
    /// simulated time this process has spent asleep (nanoseconds): `nanosleep` returns at once
    /// and advances it, `clock_gettime` adds it to the real clock, so a retry loop with a
    /// deadline ends at once and one without a deadline is given up after `SLEEP_LIMIT_NS`
    pub slept_ns: u64,
    pub sleeps: u32,
    in_shim: bool,
}

impl SimCtx {
    pub fn new(root: &str, entropy_seed: u64, readdir_seed: u64) -> Self {
        SimCtx {
            root: root.trim_end_matches('/').as_bytes().to_vec(),
            entropy: Prng::new(entropy_seed),
            readdir_seed,
            plan: Vec::new(),
            chunk: 0,
            crash_at: None,
            dead: false,
            seq: 0,
            counts: [0; NCALLS],
            slept_ns: 0,
            sleeps: 0,
            fds: Vec::new(),
            dirs: Vec::new(),
            abandoned: Arc::new(std::sync::atomic::AtomicBool::new(false)),
            runaway: Arc::new(std::sync::atomic::AtomicBool::new(false)),
            clock_mode: 0,
            clock_seed: 0,
            threads: None,
            threads_created: 0,
            thread_fail: None,
            log: Vec::new(),
            fired: Vec::new(),
            gate: None,
            pid: 0,
            getrandom_calls: 0,
            stdout: Vec::new(),
            stderr: Vec::new(),
            capture_stdio: true,
            capture_reads: false,
            reads: Vec::new(),
            in_shim: false,
        }
    }
}

thread_local! {
    static CTX: Cell<*mut SimCtx> = const { Cell::new(std::ptr::null_mut()) };
}

/// Global counters used by the start-up self-test (do the seams actually intercept std?).
pub static SEEN_GETRANDOM: AtomicU64 = AtomicU64::new(0);
pub static SEEN_OPEN: AtomicU64 = AtomicU64::new(0);
pub static SEEN_READ: AtomicU64 = AtomicU64::new(0);
pub static SEEN_WRITE: AtomicU64 = AtomicU64::new(0);
pub static SEEN_READDIR: AtomicU64 = AtomicU64::new(0);
pub static SEEN_STAT: AtomicU64 = AtomicU64::new(0);
pub static SEEN_MKDIR: AtomicU64 = AtomicU64::new(0);

/// Install a context for the current thread; returns a guard that removes it.
pub fn install(ctx: Box<SimCtx>) -> CtxGuard {
    let p = Box::into_raw(ctx);
    CTX.with(|c| c.set(p));
    CtxGuard { p }
}

pub struct CtxGuard {
    p: *mut SimCtx,
}
impl CtxGuard {
    /// Remove the context from the thread and give it back.
    pub fn take(self) -> Box<SimCtx> {
        CTX.with(|c| c.set(std::ptr::null_mut()));
        let b = unsafe { Box::from_raw(self.p) };
        std::mem::forget(self);
        b
    }
}
impl Drop for CtxGuard {
    fn drop(&mut self) {
        CTX.with(|c| c.set(std::ptr::null_mut()));
        unsafe { drop(Box::from_raw(self.p)) };
    }
}

/// Mark the current simulated process dead from the outside (used by unwinding code paths).
pub fn with_ctx<R>(f: impl FnOnce(&mut SimCtx) -> R) -> Option<R> {
    let p = CTX.with(|c| c.get());
    if p.is_null() {
        None
    } else {
        Some(f(unsafe { &mut *p }))
    }
}

#[inline]
fn ctx() -> Option<&'static mut SimCtx> {
    let p = CTX.try_with(|c| c.get()).unwrap_or(std::ptr::null_mut());
    if p.is_null() {
        return None;
    }
    let c = unsafe { &mut *p };
    if c.in_shim { None } else { Some(c) }
}

fn set_errno(e: i32) {
    unsafe { *libc::__errno_location() = e };
}
fn get_errno() -> i32 {
    unsafe { *libc::__errno_location() }
}

unsafe fn cstr_bytes<'a>(p: *const c_char) -> &'a [u8] {
    if p.is_null() {
        return &[];
    }
    unsafe { std::ffi::CStr::from_ptr(p).to_bytes() }
}

fn in_sandbox(c: &SimCtx, path: &[u8]) -> bool {
    !c.root.is_empty()
        && path.len() >= c.root.len()
        && &path[..c.root.len()] == c.root.as_slice()
        && (path.len() == c.root.len() || path[c.root.len()] == b'/')
}

fn norm(c: &SimCtx, path: &[u8]) -> String {
    let rest = &path[c.root.len()..];
    let mut s = String::from("/sim");
    s.push_str(&String::from_utf8_lossy(rest));
    s
}

/// Chunked I/O (a few bytes per call) exercises the read / write loops of the code under test;
/// after 20 000 read and write calls of one process the chunk grows to at least 4 KiB, so that a
/// multi-megabyte artifact does not cost millions of calls (a function of the call count only,
/// hence as deterministic as everything else).
fn effective_chunk(c: &SimCtx) -> usize {
    if c.chunk == 0 {
        return 0;
    }
    let calls = c.counts[Call::Read.idx()] + c.counts[Call::Write.idx()];
    if calls < 20_000 { c.chunk } else { (c.chunk * 256).max(4096) }
}

enum Pre {
    Go(Option<Action>),
    Dead,
}

/// Common prologue of every simulated sandbox call: scheduling gate, sequence number,
/// crash point, fault lookup.
/// A backstop only: with one-byte chunked I/O a legitimate link of a large project performs
/// more than a million sandbox calls (a first limit of 10^6 raised two false `hang` alarms on
/// the unchanged tree at seed 1); a process that spins is normally ended by the CPU-time watchdog,
/// and its event log is capped, so it cannot exhaust memory before that.
pub const SYSCALL_LIMIT: u32 = 200_000_000;

fn pre(c: &mut SimCtx, call: Call) -> Pre {
    if c.abandoned.load(Ordering::Relaxed) {
        loop {
            std::thread::park();
        }
    }
    if c.seq >= SYSCALL_LIMIT {
        // tell the watchdog at once, and stop consuming memory and CPU
        c.runaway.store(true, Ordering::Relaxed);
        loop {
            std::thread::park();
        }
    }
    if let Some(g) = c.gate.clone() {
        c.in_shim = true;
        g.park(c.pid);
        c.in_shim = false;
    }
    if c.dead {
        return Pre::Dead;
    }
    let seq = c.seq;
    c.seq += 1;
    let nth = c.counts[call.idx()];
    c.counts[call.idx()] += 1;
    if c.crash_at == Some(seq) {
        c.dead = true;
        c.fired.push("crash".to_string());
        return Pre::Dead;
    }
    let mut found = None;
    for r in c.plan.iter() {
        if r.call == call && r.nth == nth {
            found = Some(r.action.clone());
            break;
        }
    }
    if let Some(Action::CrashBefore) = found {
        c.dead = true;
        c.fired.push("crash".to_string());
        return Pre::Dead;
    }
    Pre::Go(found)
}

fn log(c: &mut SimCtx, call: Call, path: String, req: i64, res: i64, fault: Option<String>) {
    if let Some(f) = &fault {
        c.fired.push(f.clone());
    }
    let seq = c.seq.saturating_sub(1);
    if c.log.len() >= 200_000 {
        return;
    }
    c.log.push(Event {
        seq,
        pid: c.pid,
        call: call.name(),
        path,
        req,
        res,
        fault,
    });
}

fn errname(e: i32) -> String {
    match e {
        libc::EIO => "EIO".into(),
        libc::EACCES => "EACCES".into(),
        libc::ENOENT => "ENOENT".into(),
        libc::EISDIR => "EISDIR".into(),
        libc::ELOOP => "ELOOP".into(),
        libc::EMFILE => "EMFILE".into(),
        libc::ENOSPC => "ENOSPC".into(),
        libc::EDQUOT => "EDQUOT".into(),
        libc::ENOTDIR => "ENOTDIR".into(),
        libc::EINTR => "EINTR".into(),
        other => format!("E{other}"),
    }
}

// ------------------------------------------------------------------------------------------
// getrandom
// ------------------------------------------------------------------------------------------

#[unsafe(no_mangle)]
pub unsafe extern "C" fn getrandom(buf: *mut c_void, len: size_t, flags: c_uint) -> ssize_t {
    SEEN_GETRANDOM.fetch_add(1, Ordering::Relaxed);
    if let Some(c) = ctx() {
        c.getrandom_calls += 1;
        let slice = unsafe { std::slice::from_raw_parts_mut(buf as *mut u8, len) };
        c.entropy.fill(slice);
        return len as ssize_t;
    }
    // a thread started by a simulated process (the compiler's own helper threads): its entropy
    // is a stream derived from the parent's, so hash seeds stay a function of the run's seed
    let served = CHILD_ENTROPY
        .try_with(|c| {
            let mut g = c.take();
            let ok = if let Some(p) = g.as_mut() {
                let slice = unsafe { std::slice::from_raw_parts_mut(buf as *mut u8, len) };
                p.fill(slice);
                true
            } else {
                false
            };
            c.set(g);
            ok
        })
        .unwrap_or(false);
    if served {
        return len as ssize_t;
    }
    unsafe { libc::syscall(libc::SYS_getrandom, buf, len, flags) as ssize_t }
}

// ------------------------------------------------------------------------------------------
// threads started by a simulated process
// ------------------------------------------------------------------------------------------

thread_local! {
    static CHILD_ENTROPY: Cell<Option<Prng>> = const { Cell::new(None) };
}

pub static SEEN_CHILD_THREADS: AtomicU64 = AtomicU64::new(0);

/// Threads a simulated process starts (scoped worker threads of the compiler) are put under a
/// seeded start order: each child draws a priority from the parent's entropy stream when it is
/// created, waits a short grace period (so a burst of spawns is complete), and then runs only
/// when no live sibling with a smaller priority exists. Siblings therefore run one at a time,
/// to completion, in an order that is a function of the process's entropy seed -- the order in
/// which their results arrive is decided by the simulator, not by the host's scheduler. A child
/// that would wait longer than `SIBLING_WAIT` (siblings that depend on each other) runs anyway.
pub struct ThreadGroup {
    m: std::sync::Mutex<Vec<(u64, u64)>>, // (priority, id) of live children
    cv: std::sync::Condvar,
    next_id: AtomicU64,
}

impl ThreadGroup {
    pub fn new() -> Arc<ThreadGroup> {
        Arc::new(ThreadGroup { m: std::sync::Mutex::new(Vec::new()), cv: std::sync::Condvar::new(), next_id: AtomicU64::new(0) })
    }
}

const SIBLING_GRACE: std::time::Duration = std::time::Duration::from_millis(2);
const SIBLING_WAIT: std::time::Duration = std::time::Duration::from_millis(250);
pub static SEEN_SIBLING_REORDER: AtomicU64 = AtomicU64::new(0);

struct Tramp {
    start: extern "C" fn(*mut c_void) -> *mut c_void,
    arg: *mut c_void,
    seed: u64,
    group: Arc<ThreadGroup>,
    prio: u64,
    id: u64,
}

extern "C" fn child_thread_tramp(p: *mut c_void) -> *mut c_void {
    let t = unsafe { Box::from_raw(p as *mut Tramp) };
    let _ = CHILD_ENTROPY.try_with(|c| c.set(Some(Prng::new(t.seed))));
    let me = (t.prio, t.id);
    {
        // always: the first child of a burst cannot know that siblings are about to follow
        std::thread::sleep(SIBLING_GRACE);
        let deadline = std::time::Instant::now() + SIBLING_WAIT;
        let mut g = t.group.m.lock().unwrap_or_else(|e| e.into_inner());
        let mut waited = false;
        loop {
            let blocked = g.iter().any(|o| *o != me && *o < me);
            if !blocked {
                break;
            }
            let now = std::time::Instant::now();
            if now >= deadline {
                break;
            }
            waited = true;
            let (ng, _) = t.group.cv.wait_timeout(g, deadline - now).unwrap_or_else(|e| e.into_inner());
            g = ng;
        }
        if waited && g.iter().any(|o| o.1 > me.1) {
            SEEN_SIBLING_REORDER.fetch_add(1, Ordering::Relaxed);
        }
    }
    let r = (t.start)(t.arg);
    {
        let mut g = t.group.m.lock().unwrap_or_else(|e| e.into_inner());
        g.retain(|o| *o != me);
        t.group.cv.notify_all();
    }
    r
}

type PthreadCreate = unsafe extern "C" fn(*mut libc::pthread_t, *const libc::pthread_attr_t, extern "C" fn(*mut c_void) -> *mut c_void, *mut c_void) -> c_int;

#[unsafe(no_mangle)]
pub unsafe extern "C" fn pthread_create(
    thread: *mut libc::pthread_t,
    attr: *const libc::pthread_attr_t,
    start: extern "C" fn(*mut c_void) -> *mut c_void,
    arg: *mut c_void,
) -> c_int {
    static REAL: std::sync::OnceLock<usize> = std::sync::OnceLock::new();
    let real = *REAL.get_or_init(|| unsafe { libc::dlsym(libc::RTLD_NEXT, c"pthread_create".as_ptr()) as usize });
    if real == 0 {
        return libc::EAGAIN;
    }
    let real: PthreadCreate = unsafe { std::mem::transmute(real) };
    if let Some(c) = ctx() {
        SEEN_CHILD_THREADS.fetch_add(1, Ordering::Relaxed);
        // fault: the system refuses the nth thread this process asks for (EAGAIN: out of
        // memory for the stack, or a limit on the number of threads)
        let nth = c.threads_created;
        c.threads_created += 1;
        let refused = c.thread_fail == Some(nth);
        let seq = c.seq;
        let pid = c.pid;
        c.log.push(Event { seq, pid, call: "thread", path: String::new(), req: nth as i64, res: if refused { -(libc::EAGAIN as i64) } else { 0 }, fault: if refused { Some("pthread_create:EAGAIN".to_string()) } else { None } });
        if refused {
            c.fired.push("pthread_create:EAGAIN".to_string());
            return libc::EAGAIN;
        }
        let seed = c.entropy.next_u64();
        let group = c.threads.get_or_insert_with(ThreadGroup::new).clone();
        // the priority comes from a stream of its own (derived from the child's seed), so the
        // parent's entropy stream is consumed exactly as before this seam existed
        let prio = Prng::new(seed ^ 0x7468_7265_6164_7072).next_u64();
        let id = group.next_id.fetch_add(1, Ordering::Relaxed);
        c.in_shim = true;
        if let Ok(mut g) = group.m.lock() {
            g.push((prio, id));
        }
        let boxed = Box::into_raw(Box::new(Tramp { start, arg, seed, group: group.clone(), prio, id }));
        let r = unsafe { real(thread, attr, child_thread_tramp, boxed as *mut c_void) };
        if r != 0 {
            drop(unsafe { Box::from_raw(boxed) });
            if let Ok(mut g) = group.m.lock() {
                g.retain(|o| *o != (prio, id));
            }
        }
        c.in_shim = false;
        return r;
    }
    unsafe { real(thread, attr, start, arg) }
}

// ------------------------------------------------------------------------------------------
// open
// ------------------------------------------------------------------------------------------

unsafe fn raw_open(path: *const c_char, flags: c_int, mode: c_uint) -> c_int {
    unsafe { libc::syscall(libc::SYS_openat, libc::AT_FDCWD, path, flags, mode) as c_int }
}

unsafe fn open_common(path: *const c_char, flags: c_int, mode: c_uint) -> c_int {
    SEEN_OPEN.fetch_add(1, Ordering::Relaxed);
    let Some(c) = ctx() else {
        return unsafe { raw_open(path, flags, mode) };
    };
    let bytes = unsafe { cstr_bytes(path) };
    if !in_sandbox(c, bytes) {
        return unsafe { raw_open(path, flags, mode) };
    }
    let np = norm(c, bytes);
    match pre(c, Call::Open) {
        Pre::Dead => {
            set_errno(libc::EIO);
            -1
        }
        Pre::Go(Some(Action::Errno(e))) => {
            log(c, Call::Open, np, flags as i64, -(e as i64), Some(format!("open:{}", errname(e))));
            set_errno(e);
            -1
        }
        Pre::Go(_) => {
            let fd = unsafe { raw_open(path, flags, mode) };
            let res = if fd < 0 { -(get_errno() as i64) } else { 0 };
            if fd >= 0 {
                c.fds.push((fd, np.clone(), None));
            }
            log(c, Call::Open, np, flags as i64, res, None);
            fd
        }
    }
}

#[unsafe(no_mangle)]
pub unsafe extern "C" fn open64(path: *const c_char, flags: c_int, mode: c_uint) -> c_int {
    unsafe { open_common(path, flags, mode) }
}

#[unsafe(no_mangle)]
pub unsafe extern "C" fn open(path: *const c_char, flags: c_int, mode: c_uint) -> c_int {
    unsafe { open_common(path, flags, mode) }
}

// ------------------------------------------------------------------------------------------
// read / write / close
// ------------------------------------------------------------------------------------------

fn fd_index(c: &SimCtx, fd: c_int) -> Option<usize> {
    c.fds.iter().position(|(f, _, _)| *f == fd)
}

#[unsafe(no_mangle)]
pub unsafe extern "C" fn read(fd: c_int, buf: *mut c_void, count: size_t) -> ssize_t {
    let Some(c) = ctx() else {
        return unsafe { libc::syscall(libc::SYS_read, fd, buf, count) as ssize_t };
    };
    let Some(i) = fd_index(c, fd) else {
        return unsafe { libc::syscall(libc::SYS_read, fd, buf, count) as ssize_t };
    };
    SEEN_READ.fetch_add(1, Ordering::Relaxed);
    let np = c.fds[i].1.clone();
    match pre(c, Call::Read) {
        Pre::Dead => {
            set_errno(libc::EIO);
            -1
        }
        Pre::Go(Some(Action::Errno(e))) => {
            log(c, Call::Read, np, count as i64, -(e as i64), Some(format!("read:{}", errname(e))));
            set_errno(e);
            -1
        }
        Pre::Go(act) => {
            let mut n = count;
            let mut fault = None;
            let chunk = effective_chunk(c);
            if chunk > 0 && n > chunk {
                n = chunk;
            }
            if let Some(Action::Short(k)) = act {
                if k < n && k > 0 {
                    n = k;
                    fault = Some("read:short".to_string());
                }
            }
            let r = unsafe { libc::syscall(libc::SYS_read, fd, buf, n) as ssize_t };
            let res = if r < 0 { -(get_errno() as i64) } else { r as i64 };
            if c.capture_reads && r > 0 {
                let got = unsafe { std::slice::from_raw_parts(buf as *const u8, r as usize) };
                let key = format!("{}#{}", np, fd);
                match c.reads.iter_mut().rev().find(|(k, _)| *k == key) {
                    Some((_, b)) => b.extend_from_slice(got),
                    None => c.reads.push((key, got.to_vec())),
                }
            }
            log(c, Call::Read, np, count as i64, res, fault);
            r
        }
    }
}

#[unsafe(no_mangle)]
pub unsafe extern "C" fn write(fd: c_int, buf: *const c_void, count: size_t) -> ssize_t {
    let Some(c) = ctx() else {
        return unsafe { libc::syscall(libc::SYS_write, fd, buf, count) as ssize_t };
    };
    if c.capture_stdio && (fd == 1 || fd == 2) {
        let slice = unsafe { std::slice::from_raw_parts(buf as *const u8, count) };
        if fd == 1 {
            c.stdout.extend_from_slice(slice);
        } else {
            c.stderr.extend_from_slice(slice);
        }
        return count as ssize_t;
    }
    let Some(i) = fd_index(c, fd) else {
        return unsafe { libc::syscall(libc::SYS_write, fd, buf, count) as ssize_t };
    };
    SEEN_WRITE.fetch_add(1, Ordering::Relaxed);
    let np = c.fds[i].1.clone();
    // a pending "then error" from an earlier ShortThenErr on this fd
    if let Some(e) = c.fds[i].2 {
        if let Pre::Dead = pre(c, Call::Write) {
            set_errno(libc::EIO);
            return -1;
        }
        log(c, Call::Write, np, count as i64, -(e as i64), Some(format!("write:{}", errname(e))));
        set_errno(e);
        return -1;
    }
    match pre(c, Call::Write) {
        Pre::Dead => {
            set_errno(libc::EIO);
            -1
        }
        Pre::Go(Some(Action::Errno(e))) => {
            log(c, Call::Write, np, count as i64, -(e as i64), Some(format!("write:{}", errname(e))));
            set_errno(e);
            -1
        }
        Pre::Go(Some(Action::CrashAfterBytes(k))) => {
            let n = k.min(count);
            if n > 0 {
                unsafe { libc::syscall(libc::SYS_write, fd, buf, n) };
            }
            c.dead = true;
            log(c, Call::Write, np, count as i64, n as i64, Some("crash:mid-write".to_string()));
            c.fired.push("crash".to_string());
            set_errno(libc::EIO);
            -1
        }
        Pre::Go(act) => {
            let mut n = count;
            let mut fault = None;
            let chunk = effective_chunk(c);
            if chunk > 0 && n > chunk {
                n = chunk;
            }
            match act {
                Some(Action::Short(k)) if k > 0 && k < n => {
                    n = k;
                    fault = Some("write:short".to_string());
                }
                Some(Action::ShortThenErr(k, e)) => {
                    if k > 0 && k < n {
                        n = k;
                    }
                    c.fds[i].2 = Some(e);
                    fault = Some("write:short-then-err".to_string());
                }
                _ => {}
            }
            let r = unsafe { libc::syscall(libc::SYS_write, fd, buf, n) as ssize_t };
            let res = if r < 0 { -(get_errno() as i64) } else { r as i64 };
            log(c, Call::Write, np, count as i64, res, fault);
            r
        }
    }
}

#[unsafe(no_mangle)]
pub unsafe extern "C" fn close(fd: c_int) -> c_int {
    if let Some(c) = ctx() {
        if let Some(i) = fd_index(c, fd) {
            c.fds.remove(i);
        }
    }
    unsafe { libc::syscall(libc::SYS_close, fd) as c_int }
}

// ------------------------------------------------------------------------------------------
// directories
// ------------------------------------------------------------------------------------------

type OpendirFn = unsafe extern "C" fn(*const c_char) -> *mut libc::DIR;
type ReaddirFn = unsafe extern "C" fn(*mut libc::DIR) -> *mut libc::dirent64;
type ClosedirFn = unsafe extern "C" fn(*mut libc::DIR) -> c_int;

fn real<T: Copy>(name: &'static [u8], slot: &'static std::sync::atomic::AtomicUsize) -> T {
    let mut p = slot.load(Ordering::Relaxed);
    if p == 0 {
        p = unsafe { libc::dlsym(libc::RTLD_NEXT, name.as_ptr() as *const c_char) } as usize;
        slot.store(p, Ordering::Relaxed);
    }
    debug_assert!(std::mem::size_of::<T>() == std::mem::size_of::<usize>());
    unsafe { std::mem::transmute_copy::<usize, T>(&p) }
}

static REAL_OPENDIR: std::sync::atomic::AtomicUsize = std::sync::atomic::AtomicUsize::new(0);
static REAL_READDIR: std::sync::atomic::AtomicUsize = std::sync::atomic::AtomicUsize::new(0);
static REAL_CLOSEDIR: std::sync::atomic::AtomicUsize = std::sync::atomic::AtomicUsize::new(0);

#[unsafe(no_mangle)]
pub unsafe extern "C" fn opendir(path: *const c_char) -> *mut libc::DIR {
    let f: OpendirFn = real(b"opendir\0", &REAL_OPENDIR);
    let Some(c) = ctx() else {
        return unsafe { f(path) };
    };
    let bytes = unsafe { cstr_bytes(path) };
    if !in_sandbox(c, bytes) {
        return unsafe { f(path) };
    }
    let np = norm(c, bytes);
    match pre(c, Call::Opendir) {
        Pre::Dead => {
            set_errno(libc::EIO);
            std::ptr::null_mut()
        }
        Pre::Go(Some(Action::Errno(e))) => {
            log(c, Call::Opendir, np, 0, -(e as i64), Some(format!("opendir:{}", errname(e))));
            set_errno(e);
            std::ptr::null_mut()
        }
        Pre::Go(_) => {
            c.in_shim = true;
            let d = unsafe { f(path) };
            c.in_shim = false;
            let res = if d.is_null() { -(get_errno() as i64) } else { 0 };
            if !d.is_null() {
                c.dirs.push(DirState {
                    dirp: d as usize,
                    entries: Vec::new(),
                    cursor: 0,
                    drained: false,
                    path: np.clone(),
                });
            }
            log(c, Call::Opendir, np, 0, res, None);
            d
        }
    }
}

fn dirent_name(d: &libc::dirent64) -> &[u8] {
    let p = d.d_name.as_ptr() as *const u8;
    let mut n = 0;
    while n < d.d_name.len() && unsafe { *p.add(n) } != 0 {
        n += 1;
    }
    unsafe { std::slice::from_raw_parts(p, n) }
}

#[unsafe(no_mangle)]
pub unsafe extern "C" fn readdir64(dirp: *mut libc::DIR) -> *mut libc::dirent64 {
    let f: ReaddirFn = real(b"readdir64\0", &REAL_READDIR);
    let Some(c) = ctx() else {
        return unsafe { f(dirp) };
    };
    let Some(i) = c.dirs.iter().position(|d| d.dirp == dirp as usize) else {
        return unsafe { f(dirp) };
    };
    SEEN_READDIR.fetch_add(1, Ordering::Relaxed);
    let np = c.dirs[i].path.clone();
    match pre(c, Call::Readdir) {
        Pre::Dead => {
            set_errno(libc::EIO);
            return std::ptr::null_mut();
        }
        Pre::Go(Some(Action::Errno(e))) => {
            log(c, Call::Readdir, np, 0, -(e as i64), Some(format!("readdir:{}", errname(e))));
            set_errno(e);
            return std::ptr::null_mut();
        }
        Pre::Go(_) => {}
    }
    if !c.dirs[i].drained {
        // drain the real directory, sort by name, apply the seeded permutation
        let saved = get_errno();
        let mut all: Vec<libc::dirent64> = Vec::new();
        c.in_shim = true;
        loop {
            let e = unsafe { f(dirp) };
            if e.is_null() {
                break;
            }
            all.push(unsafe { *e });
        }
        c.in_shim = false;
        set_errno(saved);
        all.sort_by(|a, b| dirent_name(a).cmp(dirent_name(b)));
        let mut p = Prng::new(crate::prng::mix(&[c.readdir_seed, crate::prng::purpose(&np)]));
        p.shuffle(&mut all);
        for e in all.iter_mut() {
            e.d_ino = 1; // inode numbers never reach the code under test
            e.d_off = 0;
        }
        c.dirs[i].entries = all;
        c.dirs[i].drained = true;
    }
    let d = &mut c.dirs[i];
    if d.cursor >= d.entries.len() {
        log(c, Call::Readdir, np, 0, 0, None);
        return std::ptr::null_mut();
    }
    let ptr = &mut d.entries[d.cursor] as *mut libc::dirent64;
    d.cursor += 1;
    let name = String::from_utf8_lossy(dirent_name(unsafe { &*ptr })).to_string();
    log(c, Call::Readdir, format!("{np}:{name}"), 0, 1, None);
    ptr
}

#[unsafe(no_mangle)]
pub unsafe extern "C" fn closedir(dirp: *mut libc::DIR) -> c_int {
    let f: ClosedirFn = real(b"closedir\0", &REAL_CLOSEDIR);
    if let Some(c) = ctx() {
        if let Some(i) = c.dirs.iter().position(|d| d.dirp == dirp as usize) {
            c.dirs.remove(i);
        }
        c.in_shim = true;
        let r = unsafe { f(dirp) };
        c.in_shim = false;
        return r;
    }
    unsafe { f(dirp) }
}

// ------------------------------------------------------------------------------------------
// stat / mkdir
// ------------------------------------------------------------------------------------------

#[unsafe(no_mangle)]
pub unsafe extern "C" fn statx(
    dirfd: c_int,
    path: *const c_char,
    flags: c_int,
    mask: c_uint,
    buf: *mut libc::statx,
) -> c_int {
    let Some(c) = ctx() else {
        return unsafe { libc::syscall(libc::SYS_statx, dirfd, path, flags, mask, buf) as c_int };
    };
    let bytes = unsafe { cstr_bytes(path) };
    if !in_sandbox(c, bytes) {
        // fstat-like statx(fd, "", AT_EMPTY_PATH) on sandbox fds: only the clock is simulated
        let r = unsafe { libc::syscall(libc::SYS_statx, dirfd, path, flags, mask, buf) as c_int };
        if r == 0 && c.clock_mode != 0 && bytes.is_empty() && fd_index(c, dirfd).is_some() {
            unsafe { freeze_times(buf, c.clock_mode, c.clock_seed) };
        }
        return r;
    }
    SEEN_STAT.fetch_add(1, Ordering::Relaxed);
    let np = norm(c, bytes);
    match pre(c, Call::Stat) {
        Pre::Dead => {
            set_errno(libc::EIO);
            -1
        }
        Pre::Go(Some(Action::Errno(e))) => {
            log(c, Call::Stat, np, 0, -(e as i64), Some(format!("stat:{}", errname(e))));
            set_errno(e);
            -1
        }
        Pre::Go(Some(Action::StatLie(exists))) => {
            if exists {
                // answer with the sandbox root's metadata: "something is there"
                let mut root = c.root.clone();
                root.push(0);
                let r = unsafe {
                    libc::syscall(libc::SYS_statx, libc::AT_FDCWD, root.as_ptr(), flags, mask, buf) as c_int
                };
                log(c, Call::Stat, np, 0, r as i64, Some("stat:lie-exists".to_string()));
                r
            } else {
                log(c, Call::Stat, np, 0, -(libc::ENOENT as i64), Some("stat:lie-missing".to_string()));
                set_errno(libc::ENOENT);
                -1
            }
        }
        Pre::Go(_) => {
            let r = unsafe { libc::syscall(libc::SYS_statx, dirfd, path, flags, mask, buf) as c_int };
            let res = if r < 0 { -(get_errno() as i64) } else { 0 };
            if r == 0 && c.clock_mode != 0 {
                unsafe { freeze_times(buf, c.clock_mode, c.clock_seed) };
            }
            log(c, Call::Stat, np, 0, res, None);
            r
        }
    }
}

/// The simulated file-system clock. Mode 1: it stands still at one instant (every file shows
/// the same time, whenever it was written). Mode 2: it runs backwards (a file written later
/// shows an older time: restored backups, `cp -p`, a clock set back). Mode 3: skewed per file
/// (times are a pseudo-random function of the real time stamp and the process's seed: no
/// relation between write order and time order).
unsafe fn freeze_times(buf: *mut libc::statx, mode: u8, seed: u64) {
    const T0: i64 = 1_700_000_000;
    unsafe {
        for t in [&mut (*buf).stx_atime, &mut (*buf).stx_btime, &mut (*buf).stx_ctime, &mut (*buf).stx_mtime] {
            match mode {
                1 => {
                    t.tv_sec = T0;
                    t.tv_nsec = 0;
                }
                2 => {
                    // reflect around T0 + 2^31: later becomes earlier, distances are kept
                    let nanos = t.tv_sec as i128 * 1_000_000_000 + t.tv_nsec as i128;
                    let pivot = (T0 as i128 + (1i128 << 31)) * 1_000_000_000;
                    let r = (2 * pivot - nanos).max(0);
                    t.tv_sec = (r / 1_000_000_000) as i64;
                    t.tv_nsec = (r % 1_000_000_000) as u32;
                }
                3 => {
                    let mut h = crate::prng::Prng::new(seed ^ (t.tv_sec as u64).wrapping_mul(0x9e37_79b9_7f4a_7c15) ^ (t.tv_nsec as u64));
                    t.tv_sec = T0 + (h.next_u64() % 100_000_000) as i64;
                    t.tv_nsec = (h.next_u64() % 1_000_000_000) as u32;
                }
                _ => {}
            }
        }
    }
}

#[unsafe(no_mangle)]
pub unsafe extern "C" fn mkdir(path: *const c_char, mode: libc::mode_t) -> c_int {
    let Some(c) = ctx() else {
        return unsafe { libc::syscall(libc::SYS_mkdirat, libc::AT_FDCWD, path, mode as c_uint) as c_int };
    };
    let bytes = unsafe { cstr_bytes(path) };
    if !in_sandbox(c, bytes) {
        return unsafe { libc::syscall(libc::SYS_mkdirat, libc::AT_FDCWD, path, mode as c_uint) as c_int };
    }
    SEEN_MKDIR.fetch_add(1, Ordering::Relaxed);
    let np = norm(c, bytes);
    match pre(c, Call::Mkdir) {
        Pre::Dead => {
            set_errno(libc::EIO);
            -1
        }
        Pre::Go(Some(Action::Errno(e))) => {
            log(c, Call::Mkdir, np, 0, -(e as i64), Some(format!("mkdir:{}", errname(e))));
            set_errno(e);
            -1
        }
        Pre::Go(_) => {
            let r = unsafe { libc::syscall(libc::SYS_mkdirat, libc::AT_FDCWD, path, mode as c_uint) as c_int };
            let res = if r < 0 { -(get_errno() as i64) } else { 0 };
            log(c, Call::Mkdir, np, 0, res, None);
            r
        }
    }
}


// ------------------------------------------------------------------------------------------
// rename / unlink / fsync: gated, counted (so they are crash points and fault positions)
// ------------------------------------------------------------------------------------------
pub static SEEN_RENAME: AtomicU64 = AtomicU64::new(0);
pub static SEEN_SLEEP: AtomicU64 = AtomicU64::new(0);

#[unsafe(no_mangle)]
pub unsafe extern "C" fn rename(old: *const c_char, new: *const c_char) -> c_int {
    let raw = || unsafe { libc::syscall(libc::SYS_renameat, libc::AT_FDCWD, old, libc::AT_FDCWD, new) as c_int };
    let Some(c) = ctx() else { return raw() };
    let ob = unsafe { cstr_bytes(old) };
    let nb = unsafe { cstr_bytes(new) };
    if !in_sandbox(c, ob) || !in_sandbox(c, nb) {
        return raw();
    }
    SEEN_RENAME.fetch_add(1, Ordering::Relaxed);
    let np = format!("{} -> {}", norm(c, ob), norm(c, nb));
    match pre(c, Call::Rename) {
        Pre::Dead => {
            set_errno(libc::EIO);
            -1
        }
        Pre::Go(Some(Action::Errno(e))) => {
            log(c, Call::Rename, np, 0, -(e as i64), Some(format!("rename:{}", errname(e))));
            set_errno(e);
            -1
        }
        Pre::Go(_) => {
            let r = raw();
            let res = if r < 0 { -(get_errno() as i64) } else { 0 };
            log(c, Call::Rename, np, 0, res, None);
            r
        }
    }
}

#[unsafe(no_mangle)]
pub unsafe extern "C" fn unlink(path: *const c_char) -> c_int {
    let raw = || unsafe { libc::syscall(libc::SYS_unlinkat, libc::AT_FDCWD, path, 0) as c_int };
    let Some(c) = ctx() else { return raw() };
    let b = unsafe { cstr_bytes(path) };
    if !in_sandbox(c, b) {
        return raw();
    }
    let np = norm(c, b);
    match pre(c, Call::Unlink) {
        Pre::Dead => {
            set_errno(libc::EIO);
            -1
        }
        Pre::Go(Some(Action::Errno(e))) => {
            log(c, Call::Unlink, np, 0, -(e as i64), Some(format!("unlink:{}", errname(e))));
            set_errno(e);
            -1
        }
        Pre::Go(_) => {
            let r = raw();
            let res = if r < 0 { -(get_errno() as i64) } else { 0 };
            log(c, Call::Unlink, np, 0, res, None);
            r
        }
    }
}

unsafe fn sync_common(fd: c_int, nr: libc::c_long) -> c_int {
    let raw = || unsafe { libc::syscall(nr, fd) as c_int };
    let Some(c) = ctx() else { return raw() };
    let Some(name) = c.fds.iter().find(|f| f.0 == fd).map(|f| f.1.clone()) else { return raw() };
    match pre(c, Call::Sync) {
        Pre::Dead => {
            set_errno(libc::EIO);
            -1
        }
        Pre::Go(Some(Action::Errno(e))) => {
            log(c, Call::Sync, name, 0, -(e as i64), Some(format!("fsync:{}", errname(e))));
            set_errno(e);
            -1
        }
        Pre::Go(_) => {
            let r = raw();
            log(c, Call::Sync, name, 0, r as i64, None);
            r
        }
    }
}

#[unsafe(no_mangle)]
pub unsafe extern "C" fn fsync(fd: c_int) -> c_int {
    unsafe { sync_common(fd, libc::SYS_fsync) }
}

#[unsafe(no_mangle)]
pub unsafe extern "C" fn fdatasync(fd: c_int) -> c_int {
    unsafe { sync_common(fd, libc::SYS_fdatasync) }
}

// ------------------------------------------------------------------------------------------
// simulated time of a simulated process: sleeping costs nothing and is bounded
// ------------------------------------------------------------------------------------------
/// A simulated process that has slept an hour of simulated time is waiting for something that
/// will not happen (operations take milliseconds): it is reported as hung at once.
pub const SLEEP_LIMIT_NS: u64 = 3_600_000_000_000;

fn sim_sleep(c: &mut SimCtx, ns: u64) {
    SEEN_SLEEP.fetch_add(1, Ordering::Relaxed);
    c.slept_ns = c.slept_ns.saturating_add(ns.max(1));
    c.sleeps = c.sleeps.saturating_add(1);
    // a sleeping process lets the others run
    if let Some(g) = c.gate.clone() {
        c.in_shim = true;
        g.park(c.pid);
        c.in_shim = false;
    }
    if c.abandoned.load(Ordering::Relaxed) || c.slept_ns >= SLEEP_LIMIT_NS || c.sleeps >= 50_000_000 {
        c.runaway.store(true, Ordering::Relaxed);
        loop {
            std::thread::park();
        }
    }
}

#[unsafe(no_mangle)]
pub unsafe extern "C" fn nanosleep(req: *const libc::timespec, rem: *mut libc::timespec) -> c_int {
    let Some(c) = ctx() else {
        return unsafe { libc::syscall(libc::SYS_nanosleep, req, rem) as c_int };
    };
    if req.is_null() {
        set_errno(libc::EFAULT);
        return -1;
    }
    let t = unsafe { &*req };
    sim_sleep(c, (t.tv_sec.max(0) as u64).saturating_mul(1_000_000_000).saturating_add(t.tv_nsec.max(0) as u64));
    if !rem.is_null() {
        unsafe {
            (*rem).tv_sec = 0;
            (*rem).tv_nsec = 0;
        }
    }
    0
}

#[unsafe(no_mangle)]
pub unsafe extern "C" fn clock_nanosleep(clk: libc::clockid_t, flags: c_int, req: *const libc::timespec, rem: *mut libc::timespec) -> c_int {
    let Some(c) = ctx() else {
        // returns the error number, not -1
        let r = unsafe { libc::syscall(libc::SYS_clock_nanosleep, clk, flags, req, rem) };
        return if r < 0 { get_errno() } else { 0 };
    };
    if req.is_null() {
        return libc::EFAULT;
    }
    let t = unsafe { &*req };
    let mut ns = (t.tv_sec.max(0) as u64).saturating_mul(1_000_000_000).saturating_add(t.tv_nsec.max(0) as u64);
    if flags & libc::TIMER_ABSTIME != 0 {
        // absolute deadline on the process's (simulated) clock
        let mut now: libc::timespec = unsafe { std::mem::zeroed() };
        unsafe { libc::syscall(libc::SYS_clock_gettime, clk, &mut now as *mut libc::timespec) };
        let now_ns = (now.tv_sec.max(0) as u64).saturating_mul(1_000_000_000).saturating_add(now.tv_nsec.max(0) as u64).saturating_add(c.slept_ns);
        ns = ns.saturating_sub(now_ns);
    }
    sim_sleep(c, ns);
    if !rem.is_null() {
        unsafe {
            (*rem).tv_sec = 0;
            (*rem).tv_nsec = 0;
        }
    }
    0
}

#[unsafe(no_mangle)]
pub unsafe extern "C" fn clock_gettime(clk: libc::clockid_t, ts: *mut libc::timespec) -> c_int {
    let r = unsafe { libc::syscall(libc::SYS_clock_gettime, clk, ts) as c_int };
    if r != 0 || ts.is_null() {
        return r;
    }
    if clk != libc::CLOCK_MONOTONIC && clk != libc::CLOCK_REALTIME && clk != libc::CLOCK_BOOTTIME && clk != libc::CLOCK_MONOTONIC_RAW {
        return r;
    }
    if let Some(c) = ctx() {
        if c.slept_ns > 0 {
            let t = unsafe { &mut *ts };
            let total = (t.tv_nsec as u64).saturating_add(c.slept_ns % 1_000_000_000);
            t.tv_sec = t.tv_sec.saturating_add((c.slept_ns / 1_000_000_000) as i64).saturating_add((total / 1_000_000_000) as i64);
            t.tv_nsec = (total % 1_000_000_000) as _;
        }
    }
    r
}
