mod cli;
mod faults;
mod genp;
mod gort;
mod harness;
mod ops;
mod prng;
mod props;
mod shim;
mod world;

use std::sync::atomic::Ordering;

/// Start-up self-test: do the seams really intercept std? Otherwise exit 2.
pub fn seam_selftest() -> Result<(), String> {
    let sb = world::Sandbox::new("selftest").map_err(|e| e.to_string())?;
    sb.write("a.gom", b"package Main\n");
    sb.write("b.gom", b"x");
    sb.write("c.gom", b"y");
    let root = sb.root.clone();
    let mut orders = std::collections::BTreeSet::new();
    let mut hash_orders = std::collections::BTreeSet::new();
    let before = (
        shim::SEEN_GETRANDOM.load(Ordering::Relaxed),
        shim::SEEN_OPEN.load(Ordering::Relaxed),
        shim::SEEN_READ.load(Ordering::Relaxed),
        shim::SEEN_WRITE.load(Ordering::Relaxed),
        shim::SEEN_READDIR.load(Ordering::Relaxed),
        shim::SEEN_STAT.load(Ordering::Relaxed),
        shim::SEEN_MKDIR.load(Ordering::Relaxed),
    );
    for seed in 0..8u64 {
        let r2 = root.clone();
        let spec = world::ProcSpec { entropy: seed, readdir: seed, ..Default::default() };
        let res = world::run_process(&root, &spec, None, move || {
            let mut names = Vec::new();
            for e in std::fs::read_dir(&r2)? {
                names.push(e?.file_name().to_string_lossy().to_string());
            }
            let s = std::fs::read_to_string(format!("{r2}/a.gom"))?;
            assert_eq!(s, "package Main\n");
            std::fs::create_dir_all(format!("{r2}/d/e"))?;
            std::fs::write(format!("{r2}/d/e/f"), "hello")?;
            assert!(std::path::Path::new(&format!("{r2}/d/e/f")).exists());
            // the simulated file-system clock: stands still for seeds 0, 2, 4 (mod 8), runs
            // backwards for 6 and 7, is skewed per file for 3, is the real one for 1 and 5
            let mtime = std::fs::metadata(format!("{r2}/d/e/f"))?.modified()?;
            let frozen = mtime == std::time::UNIX_EPOCH + std::time::Duration::from_secs(1_700_000_000);
            assert_eq!(frozen, matches!(seed % 8, 0 | 2 | 4), "simulated file-system clock (standing still)");
            if matches!(seed % 8, 6 | 7) {
                // a.gom was written before d/e/f, so on a clock running backwards it is *newer*
                let older = std::fs::metadata(format!("{r2}/a.gom"))?.modified()?;
                assert!(older > mtime, "simulated file-system clock (running backwards)");
            }
            let hs: std::collections::HashSet<u32> = (0..16).collect();
            let order: Vec<u32> = hs.into_iter().collect();
            println!("captured");
            Ok((names, order))
        });
        if res.exit != world::Exit::Ok {
            return Err(format!("selftest process failed: {:?}", res.exit));
        }
        if res.stdout != b"captured\n" {
            return Err("stdout of simulated process not captured".into());
        }
        let (names, order) = res.value.unwrap();
        orders.insert(names);
        hash_orders.insert(order);
        sb.remove("d");
    }
    let after = (
        shim::SEEN_GETRANDOM.load(Ordering::Relaxed),
        shim::SEEN_OPEN.load(Ordering::Relaxed),
        shim::SEEN_READ.load(Ordering::Relaxed),
        shim::SEEN_WRITE.load(Ordering::Relaxed),
        shim::SEEN_READDIR.load(Ordering::Relaxed),
        shim::SEEN_STAT.load(Ordering::Relaxed),
        shim::SEEN_MKDIR.load(Ordering::Relaxed),
    );
    let moved = [
        ("getrandom", after.0 > before.0),
        ("open", after.1 > before.1),
        ("read", after.2 > before.2),
        ("write", after.3 > before.3),
        ("readdir", after.4 > before.4),
        ("stat", after.5 > before.5),
        ("mkdir", after.6 > before.6),
    ];
    for (n, ok) in moved {
        if !ok {
            return Err(format!("seam `{n}` is not intercepted by this std/libc"));
        }
    }
    if orders.len() < 2 {
        return Err("readdir permutation seam has no effect".into());
    }
    if hash_orders.len() < 2 {
        return Err("getrandom seam does not drive HashMap seeds".into());
    }
    // injected error surfaces as io::Error
    let r2 = root.clone();
    let spec = world::ProcSpec {
        entropy: 1,
        readdir: 1,
        plan: vec![shim::FaultRule { call: shim::Call::Open, nth: 0, action: shim::Action::Errno(libc::EIO) }],
        ..Default::default()
    };
    let res = world::run_process(&root, &spec, None, move || {
        Ok(std::fs::read_to_string(format!("{r2}/a.gom")).is_err())
    });
    if res.value != Some(true) {
        return Err("injected open error did not surface".into());
    }
    // simulated time: a simulated process that sleeps an hour returns at once, its clock has
    // advanced by an hour, rename / remove_file / sync_all are counted sandbox calls, and a
    // process that sleeps for ever is reported as hung without waiting for a wall-clock limit
    let r2 = root.clone();
    let spec = world::ProcSpec { entropy: 2, readdir: 2, ..Default::default() };
    let (s0, r0) = (shim::SEEN_SLEEP.load(Ordering::Relaxed), shim::SEEN_RENAME.load(Ordering::Relaxed));
    let wall = std::time::Instant::now();
    let res = world::run_process(&root, &spec, None, move || {
        let t0 = std::time::Instant::now();
        std::thread::sleep(std::time::Duration::from_secs(1800));
        let simulated = t0.elapsed();
        let f = std::fs::File::create(format!("{r2}/x.tmp"))?;
        f.sync_all()?;
        drop(f);
        std::fs::rename(format!("{r2}/x.tmp"), format!("{r2}/x.fin"))?;
        std::fs::remove_file(format!("{r2}/x.fin"))?;
        Ok(simulated)
    });
    let counted = res.log.iter().filter(|e| matches!(e.call, "rename" | "unlink" | "fsync")).count();
    match res.value {
        Some(d) if d >= std::time::Duration::from_secs(1800) && wall.elapsed() < std::time::Duration::from_secs(600) => {}
        other => return Err(format!("simulated sleep / clock seam not effective: {other:?} after {:?}", wall.elapsed())),
    }
    if shim::SEEN_SLEEP.load(Ordering::Relaxed) == s0 || shim::SEEN_RENAME.load(Ordering::Relaxed) == r0 || counted != 3 {
        return Err(format!("sleep / rename / unlink / fsync seams are not intercepted by this std/libc ({counted} of 3 counted)"));
    }
    let spec = world::ProcSpec { entropy: 3, readdir: 3, ..Default::default() };
    let wall = std::time::Instant::now();
    let res = world::run_process(&root, &spec, None, move || -> anyhow::Result<()> {
        loop {
            std::thread::sleep(std::time::Duration::from_millis(20));
        }
    });
    if res.exit != world::Exit::Hung || wall.elapsed() > std::time::Duration::from_secs(300) {
        return Err(format!("a process that sleeps for ever was not reported as hung promptly: {:?} after {:?}", res.exit, wall.elapsed()));
    }
    Ok(())
}

/// Initialise goml's process-global OnceLock caches (builtin AST / env) on a thread whose
/// hash seeds derive from `seed`, so that "what the first compile of this OS process saw" is a
/// recorded decision and not an accident of worker scheduling.
pub fn warm_builtins(seed: u64) {
    let sb = world::Sandbox::new("warm").expect("sandbox");
    sb.write("main.gom", b"fn main() -> unit { string_println(\"w\") }\n");
    let spec = world::ProcSpec { entropy: seed, readdir: seed, ..Default::default() };
    let r = ops::run_main(&sb, &spec, false);
    if r.0.class != "compiled" {
        eprintln!("HARNESS ERROR: warm-up compile failed: {:?}", r.0);
        std::process::exit(2);
    }
}

fn usage() -> ! {
    eprintln!("usage: sim <c04|c09|c13|c14|c15|c16|selfcheck|replay FILE>");
    std::process::exit(2)
}

fn main() {
    // quiet panic messages of simulated processes: the default hook writes to fd 2, which the
    // shim captures per process; nothing to do here.
    if let Err(e) = seam_selftest() {
        eprintln!("HARNESS ERROR: {e}");
        std::process::exit(2);
    }
    let args: Vec<String> = std::env::args().collect();
    if args.len() < 2 {
        usage();
    }
    let opts = harness::Opts::from_env();
    if matches!(args[1].as_str(), "c04" | "c09" | "c13" | "c14" | "c15" | "c16" | "replay" | "selfcheck") {
        world::sweep_stale();
    }
    let code = match args[1].as_str() {
        "c13" => {
            println!("VERIF_SEED={}", opts.seed);
            warm_builtins(prng::mix(&[opts.seed, prng::purpose("warm")]));
            props::c13::run(&opts)
        }
        "gort-corpus" => {
            // validate the stub runtime and the reference model against the repository's
            // recorded outputs (main.gom.out)
            let sb = world::Sandbox::new("gortcorpus").unwrap();
            let mut stats = [0usize; 6];
            for c in ops::corpus() {
                let Some(expected) = c.expected_out.clone() else { continue };
                sb.materialise(&c.files);
                let (sum, compiled, _) = ops::run_main(&sb, &world::ProcSpec::default(), false);
                let Some(compiled) = compiled else { println!("{}: not compiled ({})", c.name, sum.class); continue };
                let compiled = *compiled;
                let gp = std::sync::Arc::new(gort::goi::ProgData::new(compiled.go));
                let out = gort::run_go(&gp, gort::co::Strategy::Random, 1, vec![], 2_000_000);
                stats[0] += 1;
                match &out.stop {
                    gort::co::Stop::MainReturned if out.stdout == expected => stats[1] += 1,
                    gort::co::Stop::Unsupported(w) => { stats[2] += 1; println!("{}: go unsupported: {w}", c.name); }
                    other => { stats[3] += 1; println!("{}: GO MISMATCH stop={:?}\n--- got\n{}--- expected\n{}", c.name, other, out.stdout, expected); }
                }
                let rp = std::sync::Arc::new(gort::refi::RefProg::new(compiled.tast, compiled.genv));
                let ctrl = gort::co::Seeded::new(gort::co::Strategy::Random, 1, vec![]);
                let rout = gort::run_ref(&rp, ctrl, 2_000_000).0;
                match &rout.stop {
                    gort::co::Stop::MainReturned if rout.stdout == expected => stats[4] += 1,
                    gort::co::Stop::Unsupported(w) => println!("{}: ref unsupported: {w}", c.name),
                    other => { stats[5] += 1; println!("{}: REF MISMATCH stop={:?}\n--- got\n{}--- expected\n{}", c.name, other, rout.stdout, expected); }
                }
            }
            println!("programs with recorded output: {}; go-interp agrees: {}, unsupported: {}, MISMATCH: {}; reference agrees: {}, MISMATCH: {}", stats[0], stats[1], stats[2], stats[3], stats[4], stats[5]);
            0
        }
        "gen-stats" => {
            let n: usize = args.get(2).and_then(|x| x.parse().ok()).unwrap_or(200);
            let sb = world::Sandbox::new("genstats").unwrap();
            let mut ok = 0;
            let mut reasons: std::collections::BTreeMap<String, usize> = Default::default();
            for i in 0..n {
                let mut p = prng::Prng::derive(opts.seed, i as u64, "genstats");
                let cfg = genp::project::GenCfg::swarm(&mut p);
                let proj = genp::project::generate(&mut p, &cfg);
                let files = proj.render();
                sb.materialise(&files);
                let (sum, _c, _) = ops::run_main(&sb, &world::ProcSpec::default(), false);
                if sum.class == "compiled" {
                    ok += 1;
                } else {
                    let key = format!("{}:{}:{}", sum.class, sum.kind, sum.diagnostics.first().cloned().unwrap_or(sum.message.clone()));
                    if !reasons.contains_key(&key) && args.get(3).is_some() {
                        for (k, v) in &files { println!("--- {k}\n{}", String::from_utf8_lossy(v)); }
                        println!("=> {key}");
                    }
                    *reasons.entry(key).or_insert(0) += 1;
                }
            }
            println!("{ok}/{n} compile");
            for (k, v) in reasons { println!("{v:5} {k}"); }
            0
        }
        "c14" => {
            println!("VERIF_SEED={}", opts.seed);
            warm_builtins(prng::mix(&[opts.seed, prng::purpose("warm")]));
            props::c14::run(&opts)
        }
        "c16" => {
            println!("VERIF_SEED={}", opts.seed);
            warm_builtins(prng::mix(&[opts.seed, prng::purpose("warm")]));
            props::c16::run(&opts)
        }
        "c15" => {
            println!("VERIF_SEED={}", opts.seed);
            warm_builtins(prng::mix(&[opts.seed, prng::purpose("warm")]));
            props::c15::run(&opts)
        }
        "c04" => {
            println!("VERIF_SEED={}", opts.seed);
            warm_builtins(prng::mix(&[opts.seed, prng::purpose("warm")]));
            props::c04::run(&opts)
        }
        "make-fixtures" => props::c14fix::make_fixtures(harness::VERIF_DIR),
        "c14-one" => {
            // debug: run the C14 oracles on a project directory
            let dir = std::path::PathBuf::from(&args[2]);
            let mut files = world::Files::new();
            fn walk(root: &std::path::Path, d: &std::path::Path, out: &mut world::Files) {
                for e in std::fs::read_dir(d).unwrap().flatten() {
                    let p = e.path();
                    if p.is_dir() { walk(root, &p, out); } else if p.extension().is_some_and(|x| x == "gom") {
                        out.insert(p.strip_prefix(root).unwrap().to_string_lossy().to_string(), std::fs::read(&p).unwrap());
                    }
                }
            }
            walk(&dir, &dir, &mut files);
            let sb = world::Sandbox::new("c14one").unwrap();
            let case = props::c14::Case { name: args[2].clone(), files, predicted: None };
            let r = props::c14::check_case_debug(&sb, &case);
            for v in r { println!("{v}"); }
            0
        }
        "verdict" => {
            // debug: what do the whole-program and the separate pipeline say about a directory?
            let dir = std::path::PathBuf::from(&args[2]);
            let mut files = world::Files::new();
            fn walk2(root: &std::path::Path, d: &std::path::Path, out: &mut world::Files) {
                for e in std::fs::read_dir(d).unwrap().flatten() {
                    let p = e.path();
                    if p.is_dir() { walk2(root, &p, out); } else if p.extension().is_some_and(|x| x == "gom") {
                        out.insert(p.strip_prefix(root).unwrap().to_string_lossy().to_string(), std::fs::read(&p).unwrap());
                    }
                }
            }
            walk2(&dir, &dir, &mut files);
            let sb = world::Sandbox::new("verdict").unwrap();
            sb.materialise(&files);
            let spec = world::ProcSpec { entropy: 1, readdir: 1, ..Default::default() };
            let (sum, _, _) = ops::run_main(&sb, &spec, false);
            println!("whole: {} {} {:?} {}", sum.class, sum.kind, sum.diagnostics, sum.message.chars().take(200).collect::<String>());
            let bare = ops::run_main_bare(&sb, &spec);
            println!("bare:  {} {} {:?} {}", bare.class, bare.kind, bare.diagnostics, bare.message.chars().take(200).collect::<String>());
            if bare.go_text != sum.go_text {
                for (a, b) in sum.go_text.lines().zip(bare.go_text.lines()) {
                    if a != b {
                        println!("first difference:\n  abs : {a}\n  bare: {b}");
                        break;
                    }
                }
                println!("lengths {} vs {}", sum.go_text.len(), bare.go_text.len());
            }
            let layout = ops::Layout::scan(&files);
            match layout.topo(&mut prng::Prng::new(1)) {
                Some(order) => {
                    let sep = ops::separate_build(&sb, &layout, &order, &mut prng::Prng::new(2), &mut prng::Prng::new(3), false);
                    println!("separate: ok={} failure={:?} panicked={:?}", sep.ok, sep.failure.map(|(a, b)| (a, b.chars().take(300).collect::<String>())), sep.panicked);
                }
                None => println!("separate: no build order"),
            }
            0
        }
        "c09" => {
            println!("VERIF_SEED={}", opts.seed);
            warm_builtins(prng::mix(&[opts.seed, prng::purpose("warm")]));
            props::c09::run(&opts)
        }
        "conc-show" => {
            let i: u64 = args[2].parse().unwrap();
            let mut p = prng::Prng::derive(opts.seed, i, "c09-program");
            let cfg = genp::conc::ConcCfg::swarm(&mut p);
            print!("{}", genp::conc::generate(&mut p, &cfg));
            0
        }
        "conc-run" => {
            let i: u64 = args[2].parse().unwrap();
            let mut p = prng::Prng::derive(opts.seed, i, "c09-program");
            let cfg = genp::conc::ConcCfg::swarm(&mut p);
            let text = genp::conc::generate(&mut p, &cfg);
            let mut files = world::Files::new();
            files.insert("main.gom".into(), text.into_bytes());
            let sb = world::Sandbox::new("concrun").unwrap();
            let c = props::c09::compile_files(&sb, &files, 1).unwrap();
            for (k, st) in gort::co::STRATEGIES.iter().enumerate() {
                let t0 = std::time::Instant::now();
                let out = gort::run_go(&c.gp, *st, k as u64, vec![], gort::DEFAULT_STEPS);
                let t1 = t0.elapsed();
                props::c09::STRICT_LIVENESS.with(|c| c.set(true));
                let ch = props::c09::check_schedule(&c.gp, &c.rp, *st, k as u64, vec![], gort::DEFAULT_STEPS);
                println!("{:?}: go steps={} events={} goroutines={} stop={:?} go-time={:?} total={:?} verdict={:?}", st, out.steps, out.events.len(), out.goroutines, out.stop, t1, t0.elapsed(), match ch.verdict { props::c09::Verdict::Violates(m) => format!("VIOLATES {}", m.detail), v => format!("{v:?}") });
            }
            0
        }
        "conc-stats" => {
            let n: usize = args.get(2).and_then(|x| x.parse().ok()).unwrap_or(200);
            let sb = world::Sandbox::new("concstats").unwrap();
            let mut ok = 0;
            let mut reasons: std::collections::BTreeMap<String, usize> = Default::default();
            for i in 0..n {
                let mut p = prng::Prng::derive(opts.seed, i as u64, "c09-program");
                let cfg = genp::conc::ConcCfg::swarm(&mut p);
                let text = genp::conc::generate(&mut p, &cfg);
                let mut files = world::Files::new();
                files.insert("main.gom".into(), text.clone().into_bytes());
                sb.materialise(&files);
                let (sum, _c, _) = ops::run_main(&sb, &world::ProcSpec::default(), false);
                if sum.class == "compiled" { ok += 1; } else {
                    let key = format!("{}:{}:{}", sum.class, sum.kind, sum.diagnostics.first().cloned().unwrap_or(sum.message.clone()));
                    if !reasons.contains_key(&key) && args.get(3).is_some() { println!("{text}\n=> {key}"); }
                    *reasons.entry(key).or_insert(0) += 1;
                }
            }
            println!("{ok}/{n} compile");
            for (k, v) in reasons { println!("{v:5} {k}"); }
            0
        }
        "selfcheck" => {
            // Determinism proof: every simulation is run for many seeds twice, in different OS
            // processes and at different worker counts; the run digests (hashes over every
            // simulated process's observable outcome / event log) must agree.
            let checks = ["c04", "c09", "c13", "c14", "c15", "c16"];
            let nseeds: u64 = args.get(2).and_then(|x| x.parse().ok()).unwrap_or(8);
            let scale = args.get(3).cloned().unwrap_or_else(|| "0.05".to_string());
            let exe = std::env::current_exe().unwrap();
            let jobs: Vec<(String, u64)> = checks.iter().flat_map(|c| (0..nseeds).map(move |sd| (c.to_string(), sd))).collect();
            let results = harness::parallel(jobs.len(), 4, |i| {
                let (c, sd) = &jobs[i];
                let mut digests = Vec::new();
                for workers in ["1", "16", "5"] {
                    let o = std::process::Command::new(&exe)
                        .arg(c)
                        .env("VERIF_SEED", sd.to_string())
                        .env("VERIF_SCALE", &scale)
                        .env("VERIF_WORKERS", workers)
                        .env("VERIF_DIGEST", "1")
                        .env("VERIF_DRY", "1")
                        .env("VERIF_TIER", "quick")
                        .output()
                        .expect("spawn");
                    let out = String::from_utf8_lossy(&o.stdout).to_string();
                    let d = out.lines().find(|l| l.starts_with("DIGEST ")).map(|l| l.to_string()).unwrap_or_else(|| format!("NO DIGEST (exit {:?})", o.status.code()));
                    digests.push(d);
                }
                digests
            });
            let mut bad = 0;
            for (i, d) in results.iter().enumerate() {
                if d.iter().any(|x| *x != d[0]) || d[0].starts_with("NO DIGEST") {
                    bad += 1;
                    println!("NONDETERMINISTIC {} seed {}: {:?}", jobs[i].0, jobs[i].1, d);
                }
            }
            println!("selfcheck: {} (check, seed) pairs x 3 executions (workers 1 / 16 / 5, separate OS processes), {} mismatches", jobs.len(), bad);
            if bad > 0 { 2 } else { 0 }
        }
        "c04-child" => {
            let k: usize = args[2].parse().unwrap();
            let n: usize = args[3].parse().unwrap();
            let resume: i64 = args[4].parse().unwrap();
            warm_builtins(prng::mix(&[opts.seed, prng::purpose("warm")]));
            props::c04::child(&opts, k, n, resume, &args[5])
        }
        "c04-exec" => {
            let file: serde_json::Value = serde_json::from_slice(&std::fs::read(&args[2]).unwrap()).unwrap();
            warm_builtins(1);
            props::c04::exec_one(&file)
        }
        "c13-child" => {
            let warm: u64 = args[2].parse().unwrap();
            let idx: Vec<usize> = args[3].split(',').filter_map(|x| x.parse().ok()).collect();
            props::c13::child_digests(&opts, warm, &idx);
            0
        }
        "c13-xproc-one" => {
            props::c13::xproc_one(&args[2], args[3].parse().unwrap());
            0
        }
        "replay" => {
            if args.len() < 3 {
                usage();
            }
            let file: serde_json::Value = match std::fs::read(&args[2]).ok().and_then(|b| serde_json::from_slice(&b).ok()) {
                Some(v) => v,
                None => {
                    eprintln!("HARNESS ERROR: cannot read replay file {}", args[2]);
                    std::process::exit(2);
                }
            };
            warm_builtins(prng::mix(&[file["seed"].as_u64().unwrap_or(0), prng::purpose("warm")]));
            let prop = file["property"].as_str().unwrap_or("").to_string();
            let reproduced = match prop.as_str() {
                "C13" => props::c13::replay(&file),
                "C04" => props::c04::replay(&file),
                "C09" => props::c09::replay(&file),
                "C14" => props::c14::replay(&file),
                "C15" => props::c15::replay(&file),
                "C16" => props::c16::replay(&file),
                _ => {
                    eprintln!("HARNESS ERROR: no replay for property {prop}");
                    std::process::exit(2);
                }
            };
            if reproduced {
                println!("VIOLATION property={} replay={}", prop, args[2]);
                1
            } else {
                println!("replay did not reproduce a violation");
                0
            }
        }
        _ => usage(),
    };
    std::process::exit(code);
}
