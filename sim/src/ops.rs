//! Operations of the simulated build farm: scanning a project's layout from its files and
//! running `goml run|check|build|link` as simulated processes.

use crate::cli::{self, CliOut, Compiled};
use crate::prng::Prng;
use crate::world::{Exit, Files, ProcResult, ProcSpec, Sandbox, run_process};
use std::collections::{BTreeMap, BTreeSet};

#[derive(Clone, Debug)]
pub struct PkgLayout {
    pub name: String,
    pub dir: String,        // "" for the root package
    pub files: Vec<String>, // relative paths, sorted
    pub imports: BTreeSet<String>,
}

#[derive(Clone, Debug, Default)]
pub struct Layout {
    pub pkgs: BTreeMap<String, PkgLayout>,
}

fn header_names(text: &str) -> (Option<String>, Vec<String>) {
    let mut pkg = None;
    let mut imports = Vec::new();
    for line in text.lines() {
        let l = line.trim();
        if let Some(rest) = l.strip_prefix("package ") {
            if pkg.is_none() {
                pkg = Some(rest.trim().to_string());
            }
        } else if let Some(rest) = l.strip_prefix("import ") {
            imports.push(rest.trim().to_string());
        }
    }
    (pkg, imports)
}

impl Layout {
    /// Light-weight scan (package/import lines) — only used to *plan* builds for well-formed
    /// projects; the verdict always comes from the real compiler.
    pub fn scan(files: &Files) -> Layout {
        let mut by_dir: BTreeMap<String, Vec<String>> = BTreeMap::new();
        for path in files.keys() {
            if !path.ends_with(".gom") {
                continue;
            }
            let dir = match path.rfind('/') {
                Some(i) => path[..i].to_string(),
                None => String::new(),
            };
            by_dir.entry(dir).or_default().push(path.clone());
        }
        let mut pkgs = BTreeMap::new();
        for (dir, mut fs) in by_dir {
            fs.sort();
            // a build system names a package after its directory (root = Main); what the files
            // declare is the compiler's business to check
            let mut imports = BTreeSet::new();
            for f in &fs {
                let text = String::from_utf8_lossy(&files[f]).to_string();
                let (_p, im) = header_names(&text);
                imports.extend(im);
            }
            let name = if dir.is_empty() { "Main".to_string() } else { dir.rsplit('/').next().unwrap_or(&dir).to_string() };
            pkgs.insert(name.clone(), PkgLayout { name, dir, files: fs, imports });
        }
        Layout { pkgs }
    }

    /// Some topological order (dependencies first); `p` picks among the ready packages, so
    /// different seeds give different linear extensions. None if there is a cycle or a missing
    /// package.
    pub fn topo(&self, p: &mut Prng) -> Option<Vec<String>> {
        let mut done: Vec<String> = Vec::new();
        let mut remaining: BTreeSet<String> = self.pkgs.keys().cloned().collect();
        while !remaining.is_empty() {
            let ready: Vec<String> = remaining
                .iter()
                .filter(|n| {
                    self.pkgs[*n]
                        .imports
                        .iter()
                        .all(|d| d == "Builtin" || d == *n || done.contains(d))
                })
                .cloned()
                .collect();
            if ready.is_empty() {
                return None;
            }
            let pick = ready[p.usize(ready.len())].clone();
            remaining.remove(&pick);
            done.push(pick);
        }
        Some(done)
    }
}

pub fn s(x: &str) -> String {
    x.to_string()
}

pub fn goml(sb: &Sandbox, spec: &ProcSpec, args: Vec<String>) -> ProcResult<CliOut> {
    run_process(&sb.root, spec, None, move || cli::entry(&args))
}

/// The same invocation executed by a long-lived simulated server process (see `world::Server`).
pub fn goml_on(server: Option<&crate::world::Server>, sb: &Sandbox, spec: &ProcSpec, args: Vec<String>) -> ProcResult<CliOut> {
    crate::world::run_process_on(server, &sb.root, spec, None, move || cli::entry(&args))
}

/// `goml run main.gom` invoked from inside the project directory (the entry file named without
/// any directory part). File-system calls on relative paths are outside the sandbox prefix, so
/// this run sees the real directory order and no injected faults; entropy is still simulated.
pub fn run_main_bare(sb: &Sandbox, spec: &ProcSpec) -> RunSummary {
    let mut spec = spec.clone();
    spec.cwd = Some(sb.root.clone());
    spec.plan.clear();
    spec.crash_at = None;
    let mut r = goml(sb, &spec, vec![s("goml"), s("run"), s("main.gom")]);
    let (mut sum, _) = summarise_run(sb, &r);
    if let Some(CliOut::Compiled(c)) = r.value.take() {
        sum.go_text = c.go_text.clone();
    }
    sum
}

pub const ALL_DUMPS: [&str; 8] = [
    "--dump-ast",
    "--dump-hir",
    "--dump-tast",
    "--dump-core",
    "--dump-mono",
    "--dump-lift",
    "--dump-anf",
    "--dump-go",
];

/// What one `goml run` produced, in comparable form.
#[derive(Clone, Debug, PartialEq, serde::Serialize)]
pub struct RunSummary {
    pub class: String, // compiled | compile-error | err | panicked | killed | hung
    pub kind: String,  // for compile-error: parser|lower|typer|compile
    pub go_text: String,
    pub dumps: String,
    pub diagnostics: Vec<String>,
    pub message: String,
}

pub fn summarise_run(sb: &Sandbox, r: &ProcResult<CliOut>) -> (RunSummary, Option<Box<Compiled>>) {
    let mut sum = RunSummary {
        class: r.exit.class().to_string(),
        kind: String::new(),
        go_text: String::new(),
        dumps: sb.normalise(&String::from_utf8_lossy(&r.stdout)),
        diagnostics: Vec::new(),
        message: String::new(),
    };
    match &r.exit {
        Exit::Err(m) | Exit::Panicked(m) => sum.message = sb.normalise(m),
        _ => {}
    }
    sum.class = match (&r.exit, &r.value) {
        (Exit::Ok, Some(CliOut::Compiled(_))) => "compiled".to_string(),
        (Exit::Ok, Some(CliOut::CompileError { .. })) => "compile-error".to_string(),
        _ => sum.class,
    };
    if let Some(CliOut::CompileError { kind, formatted, .. }) = &r.value {
        sum.kind = kind.to_string();
        sum.diagnostics = formatted.iter().map(|d| sb.normalise(d)).collect();
    }
    (sum, None)
}

/// Run `goml run [dumps] <main.gom>`; returns the summary and, if compiled, the Go AST + TAST.
pub fn run_main(sb: &Sandbox, spec: &ProcSpec, dumps: bool) -> (RunSummary, Option<Box<Compiled>>, ProcResult<()>) {
    let mut args = vec![s("goml"), s("run")];
    if dumps {
        args.extend(ALL_DUMPS.iter().map(|d| s(d)));
    }
    args.push(sb.path("main.gom"));
    let mut r = goml(sb, spec, args);
    let (mut sum, _) = summarise_run(sb, &r);
    let mut compiled = None;
    if let Some(CliOut::Compiled(c)) = r.value.take() {
        sum.go_text = c.go_text.clone();
        compiled = Some(c);
    }
    let shell = ProcResult {
        exit: r.exit,
        value: None,
        log: r.log,
        fired: r.fired,
        stdout: r.stdout,
        stderr: r.stderr,
        syscalls: r.syscalls,
        getrandom_calls: r.getrandom_calls,
        reads: r.reads,
    };
    (sum, compiled, shell)
}

/// Like `run_main`, but the same simulated process first compiles `warm_path` (a long-lived
/// host compiles many programs on one thread; what was compiled before must not matter).
pub fn run_main_after(sb: &Sandbox, spec: &ProcSpec, warm_path: &str) -> (RunSummary, Option<Box<Compiled>>) {
    let warm = vec![s("goml"), s("run"), sb.path(warm_path)];
    let args = vec![s("goml"), s("run"), sb.path("main.gom")];
    let mut r = run_process(&sb.root, spec, None, move || {
        let _ = cli::entry(&warm);
        cli::entry(&args)
    });
    let (mut sum, _) = summarise_run(sb, &r);
    let mut compiled = None;
    if let Some(CliOut::Compiled(c)) = r.value.take() {
        sum.go_text = c.go_text.clone();
        compiled = Some(c);
    }
    (sum, compiled)
}

/// Arguments of `goml check|build` for one package.
pub fn pkg_args(
    sb: &Sandbox,
    cmd: &str,
    pk: &PkgLayout,
    iface_dirs: &[String],
    out_dir: &str,
    order: &mut Prng,
) -> Vec<String> {
    let mut args = vec![s("goml"), s(cmd), s("--package"), pk.name.clone()];
    let mut inputs: Vec<String> = pk.files.iter().map(|f| sb.path(f)).collect();
    order.shuffle(&mut inputs);
    args.push(s("--input"));
    args.extend(inputs);
    let mut dirs: Vec<String> = iface_dirs.iter().map(|d| sb.path(d)).collect();
    order.shuffle(&mut dirs);
    for d in dirs {
        args.push(s("--interface-path"));
        args.push(d);
    }
    args.push(s("--output"));
    args.push(sb.path(&format!("{}/{}", out_dir, pk.name)));
    args
}

pub fn link_args(sb: &Sandbox, cores: &[String], out: &str, order: &mut Prng) -> Vec<String> {
    let mut args = vec![s("goml"), s("link"), s("--input")];
    let mut cs: Vec<String> = cores.iter().map(|c| sb.path(c)).collect();
    order.shuffle(&mut cs);
    args.extend(cs);
    args.push(s("--output"));
    args.push(sb.path(out));
    args
}

/// Outcome of a complete separate build (every package built in `order`, then linked).
pub struct SepBuild {
    pub ok: bool,
    /// first failing step ("build Pa" / "link") and its message
    pub failure: Option<(String, String)>,
    pub panicked: Option<String>,
    /// artifact bytes by relative path (out/Pkg.interface, out/Pkg.core, out/main.go)
    pub artifacts: Files,
}

/// Build all packages in the given order (with `check` interleaved when `with_check`), link.
pub fn separate_build(
    sb: &Sandbox,
    layout: &Layout,
    order: &[String],
    ent: &mut Prng,
    seeds: &mut Prng,
    with_check: bool,
) -> SepBuild {
    let out_dir = "out";
    let mut failure = None;
    let mut panicked = None;
    for name in order {
        let pk = &layout.pkgs[name];
        if with_check {
            let spec = ProcSpec { entropy: ent.next_u64(), readdir: ent.next_u64(), ..Default::default() };
            let args = pkg_args(sb, "check", pk, &[s(out_dir)], "chk", seeds);
            let r = goml(sb, &spec, args);
            if let Exit::Panicked(m) = &r.exit {
                panicked = Some(format!("check {name}: {m}"));
            }
        }
        let spec = ProcSpec { entropy: ent.next_u64(), readdir: ent.next_u64(), ..Default::default() };
        let args = pkg_args(sb, "build", pk, &[s(out_dir)], out_dir, seeds);
        let r = goml(sb, &spec, args);
        match &r.exit {
            Exit::Ok => {}
            Exit::Panicked(m) => {
                panicked = Some(format!("build {name}: {m}"));
                failure = Some((format!("build {name}"), sb.normalise(m)));
                break;
            }
            other => {
                let m = match other {
                    Exit::Err(m) => sb.normalise(m),
                    o => o.class().to_string(),
                };
                failure = Some((format!("build {name}"), m));
                break;
            }
        }
    }
    if failure.is_none() {
        let cores: Vec<String> = order.iter().map(|n| format!("{out_dir}/{n}.core")).collect();
        let spec = ProcSpec { entropy: ent.next_u64(), readdir: ent.next_u64(), ..Default::default() };
        let r = goml(sb, &spec, link_args(sb, &cores, "out/main.go", seeds));
        match &r.exit {
            Exit::Ok => {}
            Exit::Panicked(m) => {
                panicked = Some(format!("link: {m}"));
                failure = Some((s("link"), sb.normalise(m)));
            }
            Exit::Err(m) => failure = Some((s("link"), sb.normalise(m))),
            o => failure = Some((s("link"), o.class().to_string())),
        }
    }
    let mut artifacts = Files::new();
    for (k, v) in sb.snapshot() {
        if k.starts_with("out/") || k.starts_with("chk/") {
            artifacts.insert(k, v);
        }
    }
    SepBuild { ok: failure.is_none(), failure, panicked, artifacts }
}

// ---------------------------------------------------------------------------------------------
// corpus
// ---------------------------------------------------------------------------------------------

pub struct CorpusProject {
    pub name: String,
    pub files: Files,
    pub expected_out: Option<String>,
}

fn read_tree(root: &std::path::Path, dir: &std::path::Path, out: &mut Files) {
    let Ok(rd) = std::fs::read_dir(dir) else { return };
    let mut entries: Vec<_> = rd.flatten().map(|e| e.path()).collect();
    entries.sort();
    for p in entries {
        if p.is_dir() {
            read_tree(root, &p, out);
        } else if p.extension().is_some_and(|e| e == "gom") {
            if let Ok(b) = std::fs::read(&p) {
                out.insert(p.strip_prefix(root).unwrap().to_string_lossy().to_string(), b);
            }
        }
    }
}

/// The repository's own programs: single-file pipeline tests, multi-package projects, and the
/// diagnostics/typer error programs (whatever *.gom exists under the test directories).
pub fn corpus() -> Vec<CorpusProject> {
    let base = std::path::Path::new("/repo/crates/compiler/src/tests");
    let mut out = Vec::new();
    for sub in ["pipeline", "package"] {
        let Ok(rd) = std::fs::read_dir(base.join(sub)) else { continue };
        let mut dirs: Vec<_> = rd.flatten().map(|e| e.path()).filter(|p| p.is_dir()).collect();
        dirs.sort();
        for d in dirs {
            let mut files = Files::new();
            read_tree(&d, &d, &mut files);
            if !files.contains_key("main.gom") {
                continue;
            }
            let expected_out = std::fs::read_to_string(d.join("main.gom.out")).ok();
            out.push(CorpusProject {
                name: format!("{}/{}", sub, d.file_name().unwrap().to_string_lossy()),
                files,
                expected_out,
            });
        }
    }
    // error programs: each *.gom/.src file is its own single-file project
    for sub in ["diagnostics", "typer", "parse_errors", "errors"] {
        let d = base.join(sub);
        if !d.is_dir() {
            continue;
        }
        let mut stack = vec![d.clone()];
        let mut found = Vec::new();
        while let Some(x) = stack.pop() {
            if let Ok(rd) = std::fs::read_dir(&x) {
                for e in rd.flatten() {
                    let p = e.path();
                    if p.is_dir() {
                        stack.push(p);
                    } else if p.extension().is_some_and(|e| e == "gom" || e == "src") {
                        found.push(p);
                    }
                }
            }
        }
        found.sort();
        for p in found {
            if let Ok(b) = std::fs::read(&p) {
                let mut files = Files::new();
                files.insert("main.gom".to_string(), b);
                out.push(CorpusProject {
                    name: format!("{}/{}", sub, p.strip_prefix(&d).unwrap().to_string_lossy()),
                    files,
                    expected_out: None,
                });
            }
        }
    }
    out
}
