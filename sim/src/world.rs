//! Sandbox (a private tmpfs directory used as a byte store) and simulated processes.
//!
//! A simulated process = one entry-point invocation on a fresh OS thread with its own SimCtx
//! (entropy stream, readdir permutation, fault plan, event log). Concurrent processes park at
//! every sandbox syscall and the simulator decides who proceeds (exactly one runnable at a time).

use crate::prng::Prng;
use crate::shim::{self, Event, FaultRule, GateLike, SimCtx};
use std::collections::BTreeMap;
use std::path::{Path, PathBuf};
use std::sync::{Arc, Condvar, Mutex};
use std::time::Duration;

pub type Files = BTreeMap<String, Vec<u8>>;

pub struct Sandbox {
    pub root: String,
}

static SANDBOX_COUNTER: std::sync::atomic::AtomicU64 = std::sync::atomic::AtomicU64::new(0);

impl Sandbox {
    pub fn new(tag: &str) -> anyhow::Result<Sandbox> {
        let n = SANDBOX_COUNTER.fetch_add(1, std::sync::atomic::Ordering::Relaxed);
        let base = if Path::new("/dev/shm").is_dir() {
            PathBuf::from("/dev/shm")
        } else {
            std::env::temp_dir()
        };
        // fixed-width name: the length of the sandbox path must not depend on the worker index,
        // the process id or how many sandboxes came before (file sizes, hence syscall counts,
        // depend on the length of paths embedded in artifacts)
        let mut t: String = tag.chars().take(10).collect();
        while t.len() < 10 {
            t.push('_');
        }
        let root = base.join(format!("gv-{:07}-{}-{:06}", std::process::id() % 10_000_000, t, n % 1_000_000));
        let _ = std::fs::remove_dir_all(&root);
        std::fs::create_dir_all(&root)
            .map_err(|e| anyhow::anyhow!("sandbox unavailable at {}: {e}", root.display()))?;
        Ok(Sandbox {
            root: root.to_string_lossy().to_string(),
        })
    }

    pub fn path(&self, rel: &str) -> String {
        if rel.is_empty() {
            self.root.clone()
        } else {
            format!("{}/{}", self.root, rel)
        }
    }

    pub fn clear(&self) {
        if let Ok(rd) = std::fs::read_dir(&self.root) {
            for e in rd.flatten() {
                let p = e.path();
                if p.is_dir() {
                    let _ = std::fs::remove_dir_all(&p);
                } else {
                    let _ = std::fs::remove_file(&p);
                }
            }
        }
    }

    pub fn write(&self, rel: &str, bytes: &[u8]) {
        let p = PathBuf::from(self.path(rel));
        if let Some(parent) = p.parent() {
            let _ = std::fs::create_dir_all(parent);
        }
        std::fs::write(&p, bytes).expect("sandbox write");
    }

    pub fn mkdir(&self, rel: &str) {
        let _ = std::fs::create_dir_all(self.path(rel));
    }

    pub fn remove(&self, rel: &str) {
        let p = self.path(rel);
        if Path::new(&p).is_dir() {
            let _ = std::fs::remove_dir_all(&p);
        } else {
            let _ = std::fs::remove_file(&p);
        }
    }

    pub fn read(&self, rel: &str) -> Option<Vec<u8>> {
        std::fs::read(self.path(rel)).ok()
    }

    pub fn exists(&self, rel: &str) -> bool {
        Path::new(&self.path(rel)).exists()
    }

    pub fn materialise(&self, files: &Files) {
        self.clear();
        for (rel, bytes) in files {
            if rel.ends_with('/') {
                self.mkdir(rel.trim_end_matches('/'));
            } else {
                self.write(rel, bytes);
            }
        }
    }

    /// All regular files below the root, relative path -> bytes (sorted).
    pub fn snapshot(&self) -> Files {
        let mut out = Files::new();
        fn walk(root: &Path, dir: &Path, out: &mut Files) {
            let Ok(rd) = std::fs::read_dir(dir) else { return };
            let mut entries: Vec<_> = rd.flatten().map(|e| e.path()).collect();
            entries.sort();
            for p in entries {
                if p.is_dir() {
                    walk(root, &p, out);
                } else if let Ok(b) = std::fs::read(&p) {
                    let rel = p.strip_prefix(root).unwrap().to_string_lossy().to_string();
                    out.insert(rel, b);
                }
            }
        }
        walk(Path::new(&self.root), Path::new(&self.root), &mut out);
        out
    }

    /// Replace the sandbox root by "/sim" in a text (for logs, comparisons, replay files).
    pub fn normalise(&self, s: &str) -> String {
        s.replace(&self.root, "/sim")
    }
}

/// Remove sandboxes left behind by harness processes that no longer exist (a killed child, an
/// interrupted run). Names carry the creating pid, so sandboxes of live processes are untouched.
pub fn sweep_stale() {
    let Ok(rd) = std::fs::read_dir("/dev/shm") else { return };
    for e in rd.flatten() {
        let name = e.file_name().to_string_lossy().to_string();
        let Some(rest) = name.strip_prefix("gv-") else { continue };
        // the pid is the first all-digit segment of at least five characters
        let Some(digits) = rest
            .split(|c: char| c == '-' || c == '.')
            .find(|seg| seg.len() >= 5 && seg.chars().all(|c| c.is_ascii_digit()))
        else {
            continue;
        };
        let Ok(pid) = digits.parse::<u32>() else { continue };
        if pid == 0 || Path::new(&format!("/proc/{pid}")).exists() {
            continue;
        }
        let p = e.path();
        if p.is_dir() {
            let _ = std::fs::remove_dir_all(&p);
        } else {
            let _ = std::fs::remove_file(&p);
        }
    }
}

impl Drop for Sandbox {
    fn drop(&mut self) {
        let _ = std::fs::remove_dir_all(&self.root);
    }
}

// ---------------------------------------------------------------------------------------------

#[derive(Clone, Debug, Default, serde::Serialize, serde::Deserialize)]
pub struct ProcSpec {
    pub entropy: u64,
    pub readdir: u64,
    #[serde(default)]
    pub plan: Vec<FaultRule>,
    #[serde(default)]
    pub chunk: usize,
    #[serde(default)]
    pub crash_at: Option<u32>,
    #[serde(default)]
    pub capture_reads: bool,
    /// working directory of the simulated process (its thread leaves the harness' file-system
    /// context with unshare(CLONE_FS) first, so this is per simulated process)
    #[serde(default)]
    pub cwd: Option<String>,
    /// the nth thread the process tries to create is refused (EAGAIN)
    #[serde(default)]
    pub thread_fail: Option<u32>,
}

#[derive(Clone, Debug, PartialEq, serde::Serialize)]
pub enum Exit {
    /// returned Ok
    Ok,
    /// returned Err (the message, sandbox path normalised by the caller if needed)
    Err(String),
    /// panicked (exit status 101 in a real process)
    Panicked(String),
    /// killed by an injected crash
    Killed,
    /// did not finish within the watchdog limit
    Hung,
}

impl Exit {
    pub fn class(&self) -> &'static str {
        match self {
            Exit::Ok => "ok",
            Exit::Err(_) => "err",
            Exit::Panicked(_) => "panicked",
            Exit::Killed => "killed",
            Exit::Hung => "hung",
        }
    }
}

pub struct ProcResult<T> {
    pub exit: Exit,
    pub value: Option<T>,
    pub log: Vec<Event>,
    pub fired: Vec<String>,
    pub stdout: Vec<u8>,
    pub stderr: Vec<u8>,
    pub syscalls: u32,
    pub getrandom_calls: u32,
    /// (normalised path '#' fd, bytes read) for every opened sandbox file, if capture was on
    pub reads: Vec<(String, Vec<u8>)>,
}

/// CPU time a simulated process may consume (operations take milliseconds)
pub const WATCHDOG: Duration = Duration::from_secs(60);
/// wall-clock backstop for a process that is blocked without consuming CPU
pub const WATCHDOG_WALL: Duration = Duration::from_secs(900);

fn thread_cpu_time(pt: libc::pthread_t) -> Option<Duration> {
    unsafe {
        let mut clk: libc::clockid_t = 0;
        if libc::pthread_getcpuclockid(pt, &mut clk) != 0 {
            return None;
        }
        let mut ts: libc::timespec = std::mem::zeroed();
        if libc::clock_gettime(clk, &mut ts) != 0 {
            return None;
        }
        Some(Duration::new(ts.tv_sec as u64, ts.tv_nsec as u32))
    }
}

fn panic_message(p: Box<dyn std::any::Any + Send>) -> String {
    if let Some(s) = p.downcast_ref::<&str>() {
        s.to_string()
    } else if let Some(s) = p.downcast_ref::<String>() {
        s.clone()
    } else {
        "<non-string panic payload>".to_string()
    }
}

/// A long-lived simulated *server* process (a build server, watch mode, an embedding of the
/// compiler): the operations handed to it run one after another on ONE thread, so whatever the
/// code under test keeps in thread-local or process-wide state survives from one operation to
/// the next — including the hash keys std caches per thread. Each operation still gets its own
/// simulation context (fault plan, entropy for anything drawn afresh, file-system clock).
pub struct Server {
    tx: Mutex<std::sync::mpsc::Sender<Box<dyn FnOnce() + Send>>>,
    pt: libc::pthread_t,
    pub dead: std::sync::atomic::AtomicBool,
}

impl Server {
    pub fn new() -> Arc<Server> {
        let (tx, rx) = std::sync::mpsc::channel::<Box<dyn FnOnce() + Send>>();
        let handle = std::thread::Builder::new()
            .name("simserver".to_string())
            .stack_size(8 * 1024 * 1024)
            .spawn(move || {
                while let Ok(job) = rx.recv() {
                    job();
                }
            })
            .expect("spawn simulated server process");
        let pt = {
            use std::os::unix::thread::JoinHandleExt;
            handle.as_pthread_t()
        };
        Arc::new(Server { tx: Mutex::new(tx), pt, dead: std::sync::atomic::AtomicBool::new(false) })
    }
}

/// Run `f` as a simulated process in sandbox `root`.
pub fn run_process<T: Send + 'static>(
    root: &str,
    spec: &ProcSpec,
    gate: Option<(Arc<dyn GateLike>, usize)>,
    f: impl FnOnce() -> anyhow::Result<T> + Send + 'static,
) -> ProcResult<T> {
    run_process_on(None, root, spec, gate, f)
}

/// Like `run_process`; with a server, the operation runs on the server's thread.
pub fn run_process_on<T: Send + 'static>(
    server: Option<&Server>,
    root: &str,
    spec: &ProcSpec,
    gate: Option<(Arc<dyn GateLike>, usize)>,
    f: impl FnOnce() -> anyhow::Result<T> + Send + 'static,
) -> ProcResult<T> {
    let mut ctx = Box::new(SimCtx::new(root, spec.entropy, spec.readdir));
    ctx.plan = spec.plan.clone();
    ctx.chunk = spec.chunk;
    ctx.crash_at = spec.crash_at;
    ctx.capture_reads = spec.capture_reads;
    ctx.thread_fail = spec.thread_fail;
    // every second simulated process sees a clock that stands still (a function of its
    // entropy seed, so replay files need nothing extra)
    // (three in eight stand still, two run backwards, one is skewed per file, two are real)
    ctx.clock_mode = match spec.entropy % 8 { 0 | 2 | 4 => 1, 6 | 7 => 2, 3 => 3, _ => 0 };
    ctx.clock_seed = spec.entropy;
    let abandoned = ctx.abandoned.clone();
    let runaway = ctx.runaway.clone();
    let cwd = spec.cwd.clone();
    let gate_for_exit = gate.clone();
    if let Some((g, pid)) = gate {
        ctx.gate = Some(g);
        ctx.pid = pid;
    }
    let (tx, rx) = std::sync::mpsc::channel();
    let body = move || {
            if let Some(dir) = &cwd {
                let c = std::ffi::CString::new(dir.as_str()).unwrap();
                let ok = unsafe { libc::unshare(libc::CLONE_FS) == 0 && libc::chdir(c.as_ptr()) == 0 };
                if !ok {
                    let _ = tx.send((Ok(Err(anyhow::anyhow!("HARNESS: cannot give the simulated process its own working directory"))), Box::new(SimCtx::new("", 0, 0))));
                    return;
                }
            }
            let guard = shim::install(ctx);
            let r = std::panic::catch_unwind(std::panic::AssertUnwindSafe(f));
            let ctx = guard.take();
            let _ = tx.send((r, ctx));
        };
    let server = server.filter(|sv| !sv.dead.load(std::sync::atomic::Ordering::Relaxed));
    let (handle, pt, cpu0) = match server {
        Some(sv) => {
            let cpu0 = thread_cpu_time(sv.pt).unwrap_or_default();
            sv.tx.lock().unwrap_or_else(|e| e.into_inner()).send(Box::new(body)).expect("simulated server process is gone");
            (None, sv.pt, cpu0)
        }
        None => {
            let builder = std::thread::Builder::new().name("simproc".to_string()).stack_size(8 * 1024 * 1024);
            let handle = builder.spawn(body).expect("spawn simulated process");
            let pt = {
                use std::os::unix::thread::JoinHandleExt;
                handle.as_pthread_t()
            };
            (Some(handle), pt, Duration::ZERO)
        }
    };
    // The watchdog counts the CPU time the process's thread has consumed, not wall-clock time:
    // on a contended host an operation that takes milliseconds of CPU can take arbitrarily long
    // on the wall, and a verdict must not depend on that. A thread that consumes no CPU at all
    // (blocked for good) is given up after `WATCHDOG_WALL`.
    let started = std::time::Instant::now();
    let received = loop {
        match rx.recv_timeout(Duration::from_millis(200)) {
            Ok(v) => break Some(v),
            Err(std::sync::mpsc::RecvTimeoutError::Disconnected) => break None,
            Err(std::sync::mpsc::RecvTimeoutError::Timeout) => {
                let cpu = thread_cpu_time(pt).map(|c| c.saturating_sub(cpu0));
                if runaway.load(std::sync::atomic::Ordering::Relaxed) || cpu.map(|c| c >= WATCHDOG).unwrap_or(false) || started.elapsed() >= WATCHDOG_WALL {
                    break None;
                }
            }
        }
    };
    let out = match received {
        Some((r, ctx)) => {
            if let Some(h) = handle {
                let _ = h.join();
            }
            let ctx = *ctx;
            let (exit, value) = if ctx.dead {
                (Exit::Killed, None)
            } else {
                match r {
                    Ok(Ok(v)) => (Exit::Ok, Some(v)),
                    Ok(Err(e)) => (Exit::Err(format!("{e:#}")), None),
                    Err(p) => (Exit::Panicked(panic_message(p)), None),
                }
            };
            ProcResult {
                exit,
                value,
                syscalls: ctx.seq,
                getrandom_calls: ctx.getrandom_calls,
                log: ctx.log,
                fired: ctx.fired,
                stdout: ctx.stdout,
                stderr: ctx.stderr,
                reads: ctx.reads,
            }
        }
        None => {
          abandoned.store(true, std::sync::atomic::Ordering::Relaxed);
          if let Some(sv) = server {
              // the server's thread is lost with the operation that hangs on it
              sv.dead.store(true, std::sync::atomic::Ordering::Relaxed);
          }
          ProcResult {
            exit: Exit::Hung,
            value: None,
            log: Vec::new(),
            fired: Vec::new(),
            stdout: Vec::new(),
            stderr: Vec::new(),
            syscalls: 0,
            getrandom_calls: 0,
            reads: Vec::new(),
          }
        }
    };
    if let Some((g, pid)) = gate_for_exit {
        // tell a scheduler, if any, that this process is gone
        let _ = (g, pid);
    }
    out
}

// ---------------------------------------------------------------------------------------------
// Concurrent simulated processes: a baton.
// ---------------------------------------------------------------------------------------------

#[derive(Default)]
struct GateState {
    /// pid currently allowed to run (None = nobody)
    current: Option<usize>,
    /// pids parked at a syscall, waiting for the baton
    parked: Vec<usize>,
    /// pids that have finished
    done: Vec<usize>,
}

pub struct Gate {
    m: Mutex<GateState>,
    cv: Condvar,
}

impl Gate {
    pub fn new() -> Arc<Gate> {
        Arc::new(Gate {
            m: Mutex::new(GateState::default()),
            cv: Condvar::new(),
        })
    }

    fn finish(&self, pid: usize) {
        let mut s = self.m.lock().unwrap_or_else(|e| e.into_inner());
        s.done.push(pid);
        if s.current == Some(pid) {
            s.current = None;
        }
        self.cv.notify_all();
    }
}

impl GateLike for Gate {
    fn park(&self, pid: usize) {
        let mut s = self.m.lock().unwrap_or_else(|e| e.into_inner());
        if s.current == Some(pid) {
            s.current = None;
        }
        s.parked.push(pid);
        self.cv.notify_all();
        while s.current != Some(pid) {
            s = self.cv.wait(s).unwrap_or_else(|e| e.into_inner());
        }
    }
}

/// Run several simulated processes concurrently under a seeded scheduler. Each closure is a
/// full process body. Returns the results (in input order) and the schedule (pid per step).
pub fn run_concurrent<T: Send + 'static>(
    root: &str,
    specs: Vec<ProcSpec>,
    bodies: Vec<Box<dyn FnOnce() -> anyhow::Result<T> + Send + 'static>>,
    sched: &mut Prng,
    forced: Option<&[usize]>,
) -> (Vec<ProcResult<T>>, Vec<usize>) {
    let n = bodies.len();
    let gate = Gate::new();
    let mut handles = Vec::new();
    for (pid, (spec, body)) in specs.into_iter().zip(bodies).enumerate() {
        let g: Arc<dyn GateLike> = gate.clone();
        let g2 = gate.clone();
        let root = root.to_string();
        handles.push(std::thread::spawn(move || {
            let gl = g.clone();
            let r = run_process(&root, &spec, Some((g, pid)), move || {
                // first park: nobody runs before the scheduler says so
                gl.park(pid);
                body()
            });
            g2.finish(pid);
            r
        }));
    }
    let mut schedule = Vec::new();
    let mut step = 0usize;
    loop {
        let mut s = gate.m.lock().unwrap_or_else(|e| e.into_inner());
        // wait until every live process is parked
        loop {
            let live = n - s.done.len();
            if s.current.is_none() && s.parked.len() >= live {
                break;
            }
            let (ns, to) = gate
                .cv
                .wait_timeout(s, WATCHDOG)
                .unwrap_or_else(|e| e.into_inner());
            s = ns;
            if to.timed_out() {
                break;
            }
        }
        if s.done.len() == n {
            break;
        }
        if s.parked.is_empty() {
            // watchdog expired with a runaway process; give up scheduling
            break;
        }
        s.parked.sort();
        let pick = match forced.and_then(|f| f.get(step)) {
            Some(p) if s.parked.contains(p) => *p,
            _ => s.parked[sched.usize(s.parked.len())],
        };
        step += 1;
        schedule.push(pick);
        s.parked.retain(|p| *p != pick);
        s.current = Some(pick);
        gate.cv.notify_all();
    }
    let results = handles
        .into_iter()
        .map(|h| h.join().expect("scheduler thread join"))
        .collect();
    (results, schedule)
}

/// SHA-256 (hex) of an event log: the run's fingerprint.
pub fn fingerprint(events: &[Event]) -> String {
    use sha2::Digest;
    let mut h = sha2::Sha256::new();
    for e in events {
        h.update(
            format!(
                "{}|{}|{}|{}|{}|{}|{:?}\n",
                e.seq, e.pid, e.call, e.path, e.req, e.res, e.fault
            )
            .as_bytes(),
        );
    }
    hex::encode(h.finalize())
}

pub fn sha(bytes: &[u8]) -> String {
    use sha2::Digest;
    hex::encode(sha2::Sha256::digest(bytes))
}
