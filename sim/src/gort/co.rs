//! A set of coroutines ("goroutines" of the emitted program, or activations of the reference
//! interpreter) on parked OS threads, with exactly one runnable at a time. A controller — a
//! seeded scheduling strategy, or a follower that replays somebody else's history — decides who
//! proceeds at every yield point. The history is the global event sequence stamped with the
//! simulator's event sequence number; simulated time is a discrete-event clock.

use std::sync::{Arc, Condvar, Mutex};

pub type Gid = usize;

/// What a goroutine is about to do at a yield point.
#[derive(Clone, Debug, PartialEq)]
pub enum Pending {
    Start,
    Spawn,
    Print,
    Store(usize),
    Load(usize),
    Sleep,
    Fail,
    Exit,
    Backedge,
}

impl Pending {
    pub fn class(&self) -> &'static str {
        match self {
            Pending::Start => "start",
            Pending::Spawn => "spawn",
            Pending::Print => "print",
            Pending::Store(_) => "store",
            Pending::Load(_) => "load",
            Pending::Sleep => "sleep",
            Pending::Fail => "fail",
            Pending::Exit => "exit",
            Pending::Backedge => "backedge",
        }
    }
}

#[derive(Clone, Debug, PartialEq, serde::Serialize)]
pub enum Ev {
    Spawn { child: Gid },
    Print(String),
    Store { cell: usize, val: String },
    Load { cell: usize, val: String },
    Sleep(u64),
    Fail(String),
    Exit,
}

impl Ev {
    pub fn class(&self) -> &'static str {
        match self {
            Ev::Spawn { .. } => "spawn",
            Ev::Print(_) => "print",
            Ev::Store { .. } => "store",
            Ev::Load { .. } => "load",
            Ev::Sleep(_) => "sleep",
            Ev::Fail(_) => "fail",
            Ev::Exit => "exit",
        }
    }
}

#[derive(Clone, Debug, serde::Serialize)]
pub struct Event {
    pub seq: u64,
    pub gid: Gid,
    pub ev: Ev,
}

#[derive(Clone, Debug, PartialEq)]
pub enum GState {
    Parked,
    Running,
    Sleeping(u64),
    Done,
}

#[derive(Clone, Debug)]
pub struct G {
    pub state: GState,
    pub pending: Pending,
    pub parent: Option<Gid>,
    /// consecutive back-edge yields without an event (spin detection)
    pub spins: u32,
    /// consecutive back-edge yields without any event at all, loads included
    pub blind_spins: u64,
}

#[derive(Clone, Debug, PartialEq, serde::Serialize)]
pub enum Stop {
    /// main returned: the program is over, everybody else is killed
    MainReturned,
    /// a goroutine failed (Go: unrecovered panic ends the program with exit status 2)
    Failed(String),
    /// the controller gave up (step budget, nothing left to follow)
    Halted(String),
    /// the interpreter met a construct it does not implement
    Unsupported(String),
    /// the program is not a valid Go program (would not compile / type-check): e.g. a call of
    /// a struct value, an unknown identifier
    Invalid(String),
}

pub struct CoState {
    pub current: Option<Gid>,
    pub gs: Vec<G>,
    pub events: Vec<Event>,
    pub stdout: String,
    pub clock: u64,
    pub stop: Option<Stop>,
    pub steps: u64,
    pub next_cell: usize,
    /// current rendered value of every shared cell (kept for controllers)
    pub cell_vals: Vec<String>,
    /// reference runs driven by a follower: sleeping never blocks (time belongs to the compiled run)
    pub no_block_sleep: bool,
    threads: Vec<std::thread::JoinHandle<()>>,
    ctrl: Option<Box<dyn Controller + Send>>,
    pub schedule: Vec<Gid>,
    pub max_steps: u64,
    pub max_blind_spins: u64,
}

pub struct Co {
    pub m: Mutex<CoState>,
    pub cv: Condvar,
}

/// Returned through the interpreter when the goroutine must unwind.
#[derive(Debug, Clone)]
pub enum Unwind {
    /// the program is over (or this goroutine was killed): unwind silently
    Stopped,
    /// Go-level panic in this goroutine
    Panic(String),
    /// construct not implemented by the interpreter
    Unsupported(String),
    /// ill-formed program
    Invalid(String),
}

pub type R<T> = Result<T, Unwind>;

impl Co {
    pub fn new() -> Arc<Co> {
        Arc::new(Co {
            m: Mutex::new(CoState {
                current: None,
                gs: Vec::new(),
                events: Vec::new(),
                stdout: String::new(),
                clock: 0,
                stop: None,
                steps: 0,
                next_cell: 0,
                cell_vals: Vec::new(),
                no_block_sleep: false,
                threads: Vec::new(),
                ctrl: None,
                schedule: Vec::new(),
                max_steps: u64::MAX,
                max_blind_spins: 0,
            }),
            cv: Condvar::new(),
        })
    }

    fn lock(&self) -> std::sync::MutexGuard<'_, CoState> {
        self.m.lock().unwrap_or_else(|e| e.into_inner())
    }

    /// Park at a yield point until the controller releases this goroutine.
    pub fn yield_point(&self, gid: Gid, pending: Pending) -> R<()> {
        let mut s = self.lock();
        if s.stop.is_some() {
            return Err(Unwind::Stopped);
        }
        if matches!(pending, Pending::Backedge) {
            s.gs[gid].spins += 1;
            s.gs[gid].blind_spins += 1;
            if s.gs[gid].blind_spins > s.max_blind_spins {
                s.max_blind_spins = s.gs[gid].blind_spins;
            }
        }
        s.gs[gid].pending = pending;
        s.gs[gid].state = GState::Parked;
        if s.current == Some(gid) {
            s.current = None;
        }
        self.schedule_next(&mut s);
        loop {
            if s.stop.is_some() {
                return Err(Unwind::Stopped);
            }
            if s.current == Some(gid) && s.gs[gid].state == GState::Running {
                return Ok(());
            }
            s = self.cv.wait(s).unwrap_or_else(|e| e.into_inner());
        }
    }

    /// Record an event (called by the running goroutine right after it was released).
    pub fn emit(&self, gid: Gid, ev: Ev) {
        let mut s = self.lock();
        let seq = s.events.len() as u64;
        if let Ev::Print(t) = &ev {
            s.stdout.push_str(t);
        }
        if let Ev::Store { cell, val } = &ev {
            if *cell < s.cell_vals.len() {
                s.cell_vals[*cell] = val.clone();
            }
        }
        if !matches!(ev, Ev::Load { .. }) {
            s.gs[gid].spins = 0;
        }
        s.gs[gid].blind_spins = 0;
        s.events.push(Event { seq, gid, ev });
    }

    pub fn new_cell(&self, initial: String) -> usize {
        let mut s = self.lock();
        let c = s.next_cell;
        s.next_cell += 1;
        s.cell_vals.push(initial);
        c
    }

    /// Block on the simulated clock for `ns`.
    pub fn sleep(&self, gid: Gid, ns: u64) -> R<()> {
        self.yield_point(gid, Pending::Sleep)?;
        self.emit(gid, Ev::Sleep(ns));
        let mut s = self.lock();
        if s.no_block_sleep {
            return Ok(());
        }
        let until = s.clock.saturating_add(ns);
        s.gs[gid].state = GState::Sleeping(until);
        s.gs[gid].pending = Pending::Backedge;
        if s.current == Some(gid) {
            s.current = None;
        }
        self.schedule_next(&mut s);
        loop {
            if s.stop.is_some() {
                return Err(Unwind::Stopped);
            }
            if s.current == Some(gid) && s.gs[gid].state == GState::Running {
                return Ok(());
            }
            s = self.cv.wait(s).unwrap_or_else(|e| e.into_inner());
        }
    }

    /// Create a goroutine; `body` runs on its own parked thread once first scheduled.
    pub fn spawn(
        self: &Arc<Self>,
        parent: Option<Gid>,
        body: impl FnOnce(Gid) -> R<()> + Send + 'static,
    ) -> Gid {
        let gid;
        {
            let mut s = self.lock();
            if s.gs.len() >= MAX_GOROUTINES {
                // a runaway spawner: halt the run instead of exhausting OS threads
                if s.stop.is_none() {
                    s.stop = Some(Stop::Halted("goroutine budget exhausted".into()));
                }
                self.cv.notify_all();
                return s.gs.len();
            }
            gid = s.gs.len();
            s.gs.push(G { state: GState::Parked, pending: Pending::Start, parent, spins: 0, blind_spins: 0 });
        }
        let co = self.clone();
        let h = std::thread::Builder::new()
            .name(format!("g{gid}"))
            .stack_size(16 * 1024 * 1024)
            .spawn(move || {
                let r = (|| -> R<()> {
                    // wait to be scheduled for the first time
                    {
                        let mut s = co.lock();
                        loop {
                            if s.stop.is_some() {
                                return Err(Unwind::Stopped);
                            }
                            if s.current == Some(gid) && s.gs[gid].state == GState::Running {
                                break;
                            }
                            s = co.cv.wait(s).unwrap_or_else(|e| e.into_inner());
                        }
                    }
                    body(gid)?;
                    co.yield_point(gid, Pending::Exit)?;
                    co.emit(gid, Ev::Exit);
                    Ok(())
                })();
                let mut s = co.lock();
                match r {
                    Ok(()) => {
                        if gid == 0 && s.stop.is_none() {
                            s.stop = Some(Stop::MainReturned);
                        }
                    }
                    Err(Unwind::Stopped) => {}
                    Err(Unwind::Panic(msg)) => {
                        if s.stop.is_none() {
                            let seq = s.events.len() as u64;
                            s.events.push(Event { seq, gid, ev: Ev::Fail(msg.clone()) });
                            s.stop = Some(Stop::Failed(msg));
                        }
                    }
                    Err(Unwind::Unsupported(what)) => {
                        if s.stop.is_none() {
                            s.stop = Some(Stop::Unsupported(what));
                        }
                    }
                    Err(Unwind::Invalid(what)) => {
                        if s.stop.is_none() {
                            s.stop = Some(Stop::Invalid(what));
                        }
                    }
                }
                s.gs[gid].state = GState::Done;
                if s.current == Some(gid) {
                    s.current = None;
                }
                co.schedule_next(&mut s);
                co.cv.notify_all();
            })
;
        match h {
            Ok(h) => self.lock().threads.push(h),
            Err(_) => {
                let mut s = self.lock();
                if s.stop.is_none() {
                    s.stop = Some(Stop::Halted("cannot create another goroutine thread".into()));
                }
                s.gs[gid].state = GState::Done;
                self.cv.notify_all();
            }
        }
        gid
    }
}


impl Co {
    /// Decide who runs next. Called with the lock held by whoever just stopped running (a
    /// goroutine at a yield point or at its end, or the driver at the very beginning), so a
    /// goroutine that is picked again continues without any thread hand-off.
    fn schedule_next(&self, s: &mut CoState) {
        if s.stop.is_some() || s.current.is_some() || s.gs.iter().any(|g| g.state == GState::Running) {
            return;
        }
        let mut runnable: Vec<Gid> = Vec::new();
        loop {
            runnable.clear();
            let now = s.clock;
            for (i, g) in s.gs.iter_mut().enumerate() {
                match g.state {
                    GState::Parked => runnable.push(i),
                    GState::Sleeping(until) if until <= now => {
                        g.state = GState::Parked;
                        runnable.push(i);
                    }
                    _ => {}
                }
            }
            if !runnable.is_empty() {
                break;
            }
            let next = s
                .gs
                .iter()
                .filter_map(|g| if let GState::Sleeping(u) = g.state { Some(u) } else { None })
                .min();
            match next {
                Some(u) => s.clock = u,
                None => break,
            }
        }
        if runnable.is_empty() {
            s.stop = Some(Stop::Halted("no runnable goroutine".into()));
            self.cv.notify_all();
            return;
        }
        if s.steps >= s.max_steps {
            s.stop = Some(Stop::Halted("step budget exhausted".into()));
            self.cv.notify_all();
            return;
        }
        let Some(mut ctrl) = s.ctrl.take() else {
            return;
        };
        let pick = ctrl.pick(s, &runnable);
        s.ctrl = Some(ctrl);
        match pick {
            Ok(g) => {
                s.steps += 1;
                // every scheduling step costs a little simulated time, so that a goroutine
                // spinning on a Ref cell cannot freeze the clock of a sleeping one
                s.clock += STEP_NS;
                s.schedule.push(g);
                s.gs[g].state = GState::Running;
                s.current = Some(g);
                self.cv.notify_all();
            }
            Err(reason) => {
                s.stop = Some(Stop::Halted(reason));
                self.cv.notify_all();
            }
        }
    }
}

/// A controller decides, whenever nobody is running, who runs next.
pub trait Controller {
    /// `runnable` lists parked goroutines (sleepers whose time has come included).
    /// Return Ok(gid) to release one, Err(reason) to halt the program.
    fn pick(&mut self, st: &CoState, runnable: &[Gid]) -> Result<Gid, String>;
}

pub struct RunOutput {
    pub events: Vec<Event>,
    pub stdout: String,
    pub stop: Stop,
    pub schedule: Vec<Gid>,
    pub steps: u64,
    pub sim_time_ns: u64,
    pub goroutines: usize,
    /// goroutines that had not finished when the run stopped
    pub live_at_stop: usize,
    /// longest run of loop back-edges one goroutine took without a single event in between
    /// (no read of a shared cell, no effect): such a loop cannot be ended by anybody else
    pub max_blind_spins: u64,
}

/// Drive the coroutine set to completion under `ctrl`; the controller is handed back.
pub fn drive<C: Controller + Send + 'static>(co: &Arc<Co>, ctrl: C, max_steps: u64) -> (RunOutput, Box<C>) {
    {
        let mut s = co.lock();
        s.ctrl = Some(Box::new(ctrl));
        s.max_steps = max_steps;
        co.schedule_next(&mut s);
        while s.stop.is_none() {
            s = co.cv.wait(s).unwrap_or_else(|e| e.into_inner());
        }
    }
    // everybody unwinds
    let threads: Vec<_> = {
        let mut s = co.lock();
        co.cv.notify_all();
        std::mem::take(&mut s.threads)
    };
    for t in threads {
        let _ = t.join();
    }
    // threads spawned while we were joining
    loop {
        let more: Vec<_> = std::mem::take(&mut co.lock().threads);
        if more.is_empty() {
            break;
        }
        for t in more {
            let _ = t.join();
        }
    }
    let mut s = co.lock();
    let ctrl = s.ctrl.take().expect("controller");
    // SAFETY: the box was created from a C in this function
    let ctrl: Box<C> = unsafe { Box::from_raw(Box::into_raw(ctrl) as *mut C) };
    (
        RunOutput {
            events: s.events.clone(),
            stdout: s.stdout.clone(),
            stop: s.stop.clone().unwrap_or(Stop::Halted("?".into())),
            schedule: s.schedule.clone(),
            steps: s.steps,
            sim_time_ns: s.clock,
            goroutines: s.gs.len(),
            live_at_stop: s.gs.iter().filter(|g| !matches!(g.state, GState::Done)).count(),
            max_blind_spins: s.max_blind_spins,
        },
        ctrl,
    )
}

// ---------------------------------------------------------------------------------------------
// seeded strategies
// ---------------------------------------------------------------------------------------------

#[derive(Clone, Copy, Debug, PartialEq, serde::Serialize, serde::Deserialize)]
pub enum Strategy {
    Random,
    Pct,
    RunToCompletion,
    RoundRobin,
    StarveOne,
    /// newest goroutine first (child runs before the spawner continues)
    ChildFirst,
}

pub const STRATEGIES: [Strategy; 6] = [
    Strategy::Random,
    Strategy::Pct,
    Strategy::RunToCompletion,
    Strategy::RoundRobin,
    Strategy::StarveOne,
    Strategy::ChildFirst,
];

pub struct Seeded {
    pub strategy: Strategy,
    pub rng: crate::prng::Prng,
    prio: Vec<u64>,
    change_points: Vec<u64>,
    last: Option<Gid>,
    victim: Gid,
    /// forced prefix (replay / shrinking)
    pub forced: Vec<Gid>,
    pos: usize,
}

pub const SPIN_LIMIT: u32 = 40;
pub const MAX_GOROUTINES: usize = 48;
pub const STEP_NS: u64 = 50;

impl Seeded {
    pub fn new(strategy: Strategy, seed: u64, forced: Vec<Gid>) -> Seeded {
        let mut rng = crate::prng::Prng::new(seed);
        let change_points = (0..3).map(|_| rng.below(200)).collect();
        let victim = rng.usize(4);
        Seeded { strategy, rng, prio: Vec::new(), change_points, last: None, victim, forced, pos: 0 }
    }
}

impl Controller for Seeded {
    fn pick(&mut self, st: &CoState, runnable: &[Gid]) -> Result<Gid, String> {
        let step = self.pos;
        self.pos += 1;
        if let Some(f) = self.forced.get(step) {
            if runnable.contains(f) {
                self.last = Some(*f);
                return Ok(*f);
            }
        }
        while self.prio.len() < st.gs.len() {
            let p = self.rng.next_u64() >> 8;
            self.prio.push(p);
        }
        // a goroutine that spins (back-edges without events) is waiting for somebody else:
        // every unfair strategy must eventually let the others run
        let not_spinning: Vec<Gid> = runnable.iter().copied().filter(|g| st.gs[*g].spins < SPIN_LIMIT).collect();
        let pool: &[Gid] = if not_spinning.is_empty() { runnable } else { &not_spinning };
        let g = match self.strategy {
            Strategy::Random => pool[self.rng.usize(pool.len())],
            Strategy::RoundRobin => {
                let last = self.last.unwrap_or(0);
                *pool.iter().find(|g| **g > last).unwrap_or(&pool[0])
            }
            Strategy::RunToCompletion => match self.last {
                Some(l) if pool.contains(&l) => l,
                _ => pool[self.rng.usize(pool.len())],
            },
            Strategy::ChildFirst => *pool.iter().max().unwrap(),
            Strategy::StarveOne => {
                let others: Vec<Gid> = pool.iter().copied().filter(|g| *g != self.victim).collect();
                if others.is_empty() { pool[0] } else { others[self.rng.usize(others.len())] }
            }
            Strategy::Pct => {
                if self.change_points.contains(&(step as u64)) {
                    if let Some(l) = self.last {
                        if l < self.prio.len() {
                            self.prio[l] = self.rng.below(1000);
                        }
                    }
                }
                *pool.iter().max_by_key(|g| self.prio[**g]).unwrap()
            }
        };
        self.last = Some(g);
        Ok(g)
    }
}
