//! The simulated Go runtime (stub for the absent Go toolchain) and the reference interpreter.

pub mod co;
pub mod goi;
pub mod refi;

use co::{Co, Controller, RunOutput, Seeded, Strategy};
use std::sync::Arc;

pub const DEFAULT_STEPS: u64 = 20_000;

/// Run the emitted program under a seeded strategy (optionally with a forced schedule prefix).
pub fn run_go(prog: &Arc<goi::ProgData>, strategy: Strategy, seed: u64, forced: Vec<usize>, max_steps: u64) -> RunOutput {
    if let Some(what) = prog.unsupported_imports() {
        return RunOutput {
            events: vec![],
            stdout: String::new(),
            stop: co::Stop::Unsupported(what),
            schedule: vec![],
            steps: 0,
            sim_time_ns: 0,
            goroutines: 0,
            live_at_stop: 0,
            max_blind_spins: 0,
        };
    }
    let co = Co::new();
    goi::start(prog.clone(), &co);
    let ctrl = Seeded::new(strategy, seed, forced);
    co::drive(&co, ctrl, max_steps).0
}

/// Run the reference interpreter under an arbitrary controller.
pub fn run_ref<C: Controller + Send + 'static>(prog: &Arc<refi::RefProg>, ctrl: C, max_steps: u64) -> (RunOutput, Box<C>) {
    let co = Co::new();
    refi::start(prog.clone(), &co);
    co::drive(&co, ctrl, max_steps)
}
