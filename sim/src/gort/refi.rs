//! Reference semantics: an independent interpreter over the typed AST (`Compilation.tast`).
//! Call-by-value, strict left-to-right operands and arguments, short-circuit && / ||,
//! first-match patterns, closures capturing by value, Ref cells as shared heap objects,
//! fixed-width wrapping arithmetic, failure on division by zero / out-of-range index,
//! `go e` = a new activation running `e()`. Activations are coroutines of `co` and yield at the
//! same kinds of points as the Go interpreter (before effects, before shared reads, at loop
//! back-edges), so a follower can drive them along a compiled program's history.
//!
//! Everything C09 anchors (match compilation, mono, lift, ANF, Go backend, DCE) lies after
//! the TAST; the front end up to type checking is trusted.

use super::co::{Co, Ev, Gid, Pending, R, Unwind};
use common_defs::{BinaryOp, UnaryOp};
use compiler::common::{Constructor, Prim};
use compiler::env::GlobalTypeEnv;
use compiler::tast::{self, Expr, Pat, Ty};
use std::collections::HashMap;
use std::sync::{Arc, Mutex};

#[derive(Clone, Copy, Debug, PartialEq, Eq)]
pub enum IK {
    I8,
    I16,
    I32,
    I64,
    U8,
    U16,
    U32,
    U64,
}

impl IK {
    fn bits(self) -> (u32, bool) {
        match self {
            IK::I8 => (8, true),
            IK::I16 => (16, true),
            IK::I32 => (32, true),
            IK::I64 => (64, true),
            IK::U8 => (8, false),
            IK::U16 => (16, false),
            IK::U32 => (32, false),
            IK::U64 => (64, false),
        }
    }
    fn wrap(self, v: i128) -> i128 {
        let (bits, signed) = self.bits();
        let m: i128 = 1i128 << bits;
        let mut r = v.rem_euclid(m);
        if signed && r >= (m >> 1) {
            r -= m;
        }
        r
    }
}

#[derive(Debug)]
pub struct RCell {
    pub id: usize,
    pub v: Mutex<RV>,
}

#[derive(Debug)]
pub struct Closure {
    params: Vec<String>,
    body: Expr,
    env: Vec<(String, RV)>,
}

#[derive(Clone, Debug)]
pub enum RV {
    Unit,
    Bool(bool),
    Int(i128, IK),
    Float(f64, bool),
    Str(Arc<str>),
    Tuple(Vec<RV>),
    Struct(Arc<str>, Vec<RV>),
    Enum(Arc<str>, usize, Vec<RV>),
    Array(Vec<RV>),
    Vec(Arc<Vec<RV>>),
    Ref(Arc<RCell>),
    Closure(Arc<Closure>),
    Fn(Arc<str>),
    TraitMethod(Arc<str>, Arc<str>, Option<Ty>),
    Inherent(Ty, Arc<str>),
    Dyn(Arc<str>, Box<RV>, Ty),
    Opaque(i128),
}

pub fn render(v: &RV) -> String {
    match v {
        RV::Unit => "()".into(),
        RV::Bool(b) => b.to_string(),
        RV::Int(i, _) | RV::Opaque(i) => i.to_string(),
        RV::Float(f, _) => format!("{f}"),
        RV::Str(s) => format!("{:?}", &**s),
        _ => "*".into(),
    }
}

pub struct RefProg {
    pub tast: tast::File,
    pub genv: GlobalTypeEnv,
    fns: HashMap<String, usize>,
    externs: HashMap<String, (String, String)>,
}

impl RefProg {
    pub fn new(tast: tast::File, genv: GlobalTypeEnv) -> RefProg {
        let mut fns = HashMap::new();
        let mut externs = HashMap::new();
        for (i, item) in tast.toplevels.iter().enumerate() {
            match item {
                tast::Item::Fn(f) => {
                    fns.insert(f.name.clone(), i);
                }
                tast::Item::ExternGo(e) => {
                    externs.insert(e.goml_name.clone(), (e.package_path.clone(), e.go_name.clone()));
                }
                _ => {}
            }
        }
        RefProg { tast, genv, fns, externs }
    }

    fn func(&self, name: &str) -> Option<&tast::Fn> {
        self.fns.get(name).map(|i| match &self.tast.toplevels[*i] {
            tast::Item::Fn(f) => f,
            _ => unreachable!(),
        })
    }
}

struct Env {
    vars: Vec<(String, RV)>,
}

impl Env {
    fn get(&self, n: &str) -> Option<&RV> {
        self.vars.iter().rev().find(|(k, _)| k == n).map(|(_, v)| v)
    }
}

pub struct RefInterp {
    pub prog: Arc<RefProg>,
    pub co: Arc<Co>,
}

const MAX_DEPTH: u32 = 600;

fn int_kind(ty: &Ty) -> Option<IK> {
    Some(match ty {
        Ty::TInt8 => IK::I8,
        Ty::TInt16 => IK::I16,
        Ty::TInt32 => IK::I32,
        Ty::TInt64 => IK::I64,
        Ty::TUint8 => IK::U8,
        Ty::TUint16 => IK::U16,
        Ty::TUint32 => IK::U32,
        Ty::TUint64 => IK::U64,
        _ => return None,
    })
}

fn head_name(ty: &Ty) -> Option<String> {
    match ty {
        Ty::TEnum { name } | Ty::TStruct { name } => Some(name.clone()),
        Ty::TApp { ty, .. } => head_name(ty),
        Ty::TUnit => Some("unit".into()),
        Ty::TBool => Some("bool".into()),
        Ty::TString => Some("string".into()),
        Ty::TInt8 => Some("int8".into()),
        Ty::TInt16 => Some("int16".into()),
        Ty::TInt32 => Some("int32".into()),
        Ty::TInt64 => Some("int64".into()),
        Ty::TUint8 => Some("uint8".into()),
        Ty::TUint16 => Some("uint16".into()),
        Ty::TUint32 => Some("uint32".into()),
        Ty::TUint64 => Some("uint64".into()),
        Ty::TFloat32 => Some("float32".into()),
        Ty::TFloat64 => Some("float64".into()),
        _ => None,
    }
}

fn has_param(ty: &Ty) -> bool {
    match ty {
        Ty::TParam { .. } | Ty::TVar(_) => true,
        Ty::TTuple { typs } => typs.iter().any(has_param),
        Ty::TApp { ty, args } => has_param(ty) || args.iter().any(has_param),
        Ty::TArray { elem, .. } | Ty::TVec { elem } | Ty::TRef { elem } => has_param(elem),
        Ty::TFunc { params, ret_ty } => params.iter().any(has_param) || has_param(ret_ty),
        _ => false,
    }
}

fn value_head(v: &RV) -> Option<String> {
    match v {
        RV::Struct(n, _) => Some(n.to_string()),
        RV::Enum(n, _, _) => Some(n.to_string()),
        RV::Unit => Some("unit".into()),
        RV::Bool(_) => Some("bool".into()),
        RV::Str(_) => Some("string".into()),
        RV::Int(_, k) => Some(
            match k {
                IK::I8 => "int8",
                IK::I16 => "int16",
                IK::I32 => "int32",
                IK::I64 => "int64",
                IK::U8 => "uint8",
                IK::U16 => "uint16",
                IK::U32 => "uint32",
                IK::U64 => "uint64",
            }
            .into(),
        ),
        RV::Float(_, is32) => Some(if *is32 { "float32" } else { "float64" }.into()),
        _ => None,
    }
}

impl RefInterp {
    fn fail<T>(&self, gid: Gid, msg: &str) -> R<T> {
        self.co.yield_point(gid, Pending::Fail)?;
        Err(Unwind::Panic(msg.to_string()))
    }

    fn unsupported<T>(&self, what: impl Into<String>) -> R<T> {
        Err(Unwind::Unsupported(format!("reference model: {}", what.into())))
    }

    fn prim(&self, p: &Prim) -> RV {
        match p {
            Prim::Unit { .. } => RV::Unit,
            Prim::Bool { value } => RV::Bool(*value),
            Prim::Int8 { value } => RV::Int(*value as i128, IK::I8),
            Prim::Int16 { value } => RV::Int(*value as i128, IK::I16),
            Prim::Int32 { value } => RV::Int(*value as i128, IK::I32),
            Prim::Int64 { value } => RV::Int(*value as i128, IK::I64),
            Prim::UInt8 { value } => RV::Int(*value as i128, IK::U8),
            Prim::UInt16 { value } => RV::Int(*value as i128, IK::U16),
            Prim::UInt32 { value } => RV::Int(*value as i128, IK::U32),
            Prim::UInt64 { value } => RV::Int(*value as i128, IK::U64),
            Prim::Float32 { value } => RV::Float(*value as f64, true),
            Prim::Float64 { value } => RV::Float(*value, false),
            Prim::String { value } => RV::Str(value.as_str().into()),
        }
    }

    fn find_impl_method(&self, trait_name: &str, method: &str, static_ty: Option<&Ty>, recv: Option<&RV>) -> Option<&tast::Fn> {
        // exact static type first (distinguishes Maybe[int32] from Maybe[string])
        let mut by_head: Option<&tast::Fn> = None;
        let head = match static_ty {
            Some(t) if !has_param(t) => head_name(t),
            _ => None,
        }
        .or_else(|| recv.and_then(value_head));
        for item in &self.prog.tast.toplevels {
            if let tast::Item::ImplBlock(ib) = item {
                if ib.trait_name.as_ref().map(|t| t.0.as_str()) != Some(trait_name) {
                    continue;
                }
                let Some(m) = ib.methods.iter().find(|m| m.name == method) else { continue };
                if let Some(t) = static_ty {
                    if !has_param(t) && &ib.for_type == t {
                        return Some(m);
                    }
                }
                if let (Some(h), Some(ih)) = (head.as_ref(), head_name(&ib.for_type)) {
                    if *h == ih && by_head.is_none() {
                        // only usable if this head has a single impl of the trait
                        by_head = Some(m);
                    }
                }
            }
        }
        // ambiguity check: several impls with the same head (generic instances) and no exact match
        let mut count = 0;
        for item in &self.prog.tast.toplevels {
            if let tast::Item::ImplBlock(ib) = item {
                if ib.trait_name.as_ref().map(|t| t.0.as_str()) == Some(trait_name)
                    && head.is_some()
                    && head_name(&ib.for_type) == head
                    && ib.methods.iter().any(|m| m.name == method)
                {
                    count += 1;
                }
            }
        }
        if count == 1 { by_head } else { None }
    }

    fn find_inherent(&self, recv_ty: &Ty, method: &str, recv: Option<&RV>) -> Option<&tast::Fn> {
        let head = if has_param(recv_ty) { recv.and_then(value_head) } else { head_name(recv_ty) };
        let mut found = None;
        let mut count = 0;
        for item in &self.prog.tast.toplevels {
            if let tast::Item::ImplBlock(ib) = item {
                if ib.trait_name.is_some() {
                    continue;
                }
                let Some(m) = ib.methods.iter().find(|m| m.name == method) else { continue };
                if !has_param(recv_ty) && &ib.for_type == recv_ty {
                    return Some(m);
                }
                if head.is_some() && head_name(&ib.for_type) == head {
                    found = Some(m);
                    count += 1;
                }
            }
        }
        if count == 1 { found } else { None }
    }

    pub fn call_value(&self, gid: Gid, f: RV, args: Vec<RV>, depth: u32) -> R<RV> {
        if depth > MAX_DEPTH {
            return self.unsupported("call depth limit");
        }
        match f {
            RV::Closure(c) => {
                if c.params.len() != args.len() {
                    return self.unsupported("closure arity");
                }
                let mut env = Env { vars: c.env.clone() };
                for (n, v) in c.params.iter().zip(args) {
                    env.vars.push((n.clone(), v));
                }
                self.eval(gid, &c.body, &mut env, depth + 1)
            }
            RV::Fn(name) => {
                if let Some(func) = self.prog.func(&name) {
                    return self.call_fn(gid, func, args, depth + 1);
                }
                self.builtin(gid, &name, args)
            }
            RV::TraitMethod(tr, m, static_recv) => {
                // dyn receiver: dispatch on the wrapped value
                if let Some(RV::Dyn(_, inner, for_ty)) = args.first().cloned() {
                    let mut a = args;
                    a[0] = *inner.clone();
                    let Some(func) = self.find_impl_method(&tr, &m, Some(&for_ty), Some(&inner)) else {
                        return self.unsupported(format!("no impl {tr}::{m} for dyn payload"));
                    };
                    return self.call_fn(gid, func, a, depth + 1);
                }
                let Some(func) = self.find_impl_method(&tr, &m, static_recv.as_ref(), args.first()) else {
                    return self.unsupported(format!("cannot resolve {tr}::{m}"));
                };
                self.call_fn(gid, func, args, depth + 1)
            }
            RV::Inherent(ty, m) => {
                if ty == Ty::TInt32 && &*m == "to_string" {
                    return self.builtin(gid, "int32_to_string", args);
                }
                let Some(func) = self.find_inherent(&ty, &m, args.first()) else {
                    return self.unsupported(format!("cannot resolve inherent method {m}"));
                };
                self.call_fn(gid, func, args, depth + 1)
            }
            _ => self.unsupported("call of non-function"),
        }
    }

    fn call_fn(&self, gid: Gid, f: &tast::Fn, args: Vec<RV>, depth: u32) -> R<RV> {
        if f.params.len() != args.len() {
            return self.unsupported(format!("arity mismatch calling {}", f.name));
        }
        let mut env = Env { vars: Vec::with_capacity(16) };
        for ((n, _), v) in f.params.iter().zip(args) {
            env.vars.push((n.clone(), v));
        }
        self.eval(gid, &f.body, &mut env, depth)
    }

    fn builtin(&self, gid: Gid, name: &str, args: Vec<RV>) -> R<RV> {
        let a0 = args.first();
        match name {
            "string_print" | "string_println" => {
                let Some(RV::Str(s)) = a0 else { return self.unsupported("print of non-string") };
                let mut text = s.to_string();
                if name == "string_println" {
                    text.push('\n');
                }
                self.co.yield_point(gid, Pending::Print)?;
                self.co.emit(gid, Ev::Print(text));
                Ok(RV::Unit)
            }
            "unit_to_string" => Ok(RV::Str("()".into())),
            "bool_to_string" | "bool_to_json" => match a0 {
                Some(RV::Bool(b)) => Ok(RV::Str(b.to_string().into())),
                _ => self.unsupported(name),
            },
            "int8_to_string" | "int16_to_string" | "int32_to_string" | "int64_to_string" | "uint8_to_string"
            | "uint16_to_string" | "uint32_to_string" | "uint64_to_string" => match a0 {
                Some(RV::Int(i, _)) => Ok(RV::Str(i.to_string().into())),
                _ => self.unsupported(name),
            },
            "float32_to_string" | "float64_to_string" => self.unsupported("float formatting"),
            "json_escape_string" => match a0 {
                Some(RV::Str(s)) => Ok(RV::Str(super::goi::go_quote(s).into())),
                _ => self.unsupported(name),
            },
            "string_len" => match a0 {
                Some(RV::Str(s)) => Ok(RV::Int(s.len() as i128, IK::I32)),
                _ => self.unsupported(name),
            },
            "string_get" => match (a0, args.get(1)) {
                (Some(RV::Str(s)), Some(RV::Int(i, _))) => {
                    let b = s.as_bytes();
                    if *i < 0 || *i as usize >= b.len() {
                        return self.fail(gid, "index out of range");
                    }
                    let c = char::from_u32(b[*i as usize] as u32).unwrap_or('\u{fffd}');
                    Ok(RV::Str(c.to_string().into()))
                }
                _ => self.unsupported(name),
            },
            "ref" => {
                let init = args.into_iter().next().unwrap_or(RV::Unit);
                let id = self.co.new_cell(render(&init));
                Ok(RV::Ref(Arc::new(RCell { id, v: Mutex::new(init) })))
            }
            "ref_get" => match a0 {
                Some(RV::Ref(c)) => {
                    self.co.yield_point(gid, Pending::Load(c.id))?;
                    let v = c.v.lock().unwrap_or_else(|e| e.into_inner()).clone();
                    self.co.emit(gid, Ev::Load { cell: c.id, val: render(&v) });
                    Ok(v)
                }
                _ => self.unsupported(name),
            },
            "ref_set" => match (a0, args.get(1)) {
                (Some(RV::Ref(c)), Some(v)) => {
                    self.co.yield_point(gid, Pending::Store(c.id))?;
                    *c.v.lock().unwrap_or_else(|e| e.into_inner()) = v.clone();
                    self.co.emit(gid, Ev::Store { cell: c.id, val: render(v) });
                    Ok(RV::Unit)
                }
                _ => self.unsupported(name),
            },
            "array_get" => match (a0, args.get(1)) {
                (Some(RV::Array(xs)), Some(RV::Int(i, _))) => {
                    if *i < 0 || *i as usize >= xs.len() {
                        return self.fail(gid, "index out of range");
                    }
                    Ok(xs[*i as usize].clone())
                }
                _ => self.unsupported(name),
            },
            "array_set" => match (a0, args.get(1), args.get(2)) {
                (Some(RV::Array(xs)), Some(RV::Int(i, _)), Some(v)) => {
                    if *i < 0 || *i as usize >= xs.len() {
                        return self.fail(gid, "index out of range");
                    }
                    let mut ys = xs.clone();
                    ys[*i as usize] = v.clone();
                    Ok(RV::Array(ys))
                }
                _ => self.unsupported(name),
            },
            "vec_new" => Ok(RV::Vec(Arc::new(Vec::new()))),
            "vec_push" => match (a0, args.get(1)) {
                (Some(RV::Vec(xs)), Some(v)) => {
                    let mut ys = (**xs).clone();
                    ys.push(v.clone());
                    Ok(RV::Vec(Arc::new(ys)))
                }
                _ => self.unsupported(name),
            },
            "vec_get" => match (a0, args.get(1)) {
                (Some(RV::Vec(xs)), Some(RV::Int(i, _))) => {
                    if *i < 0 || *i as usize >= xs.len() {
                        return self.fail(gid, "index out of range");
                    }
                    Ok(xs[*i as usize].clone())
                }
                _ => self.unsupported(name),
            },
            "vec_len" => match a0 {
                Some(RV::Vec(xs)) => Ok(RV::Int(xs.len() as i128, IK::I32)),
                _ => self.unsupported(name),
            },
            other => {
                if let Some((pkg, go_name)) = self.prog.externs.get(other) {
                    return match (pkg.as_str(), go_name.as_str(), a0) {
                        ("time", "Sleep", Some(RV::Opaque(ns))) | ("time", "Sleep", Some(RV::Int(ns, _))) => {
                            self.co.sleep(gid, (*ns).max(0) as u64)?;
                            Ok(RV::Unit)
                        }
                        ("time", "Duration", Some(RV::Int(i, _))) => Ok(RV::Opaque(*i)),
                        _ => self.unsupported(format!("extern {pkg}.{go_name}")),
                    };
                }
                self.unsupported(format!("unknown function {other}"))
            }
        }
    }

    fn bind(&self, pat: &Pat, v: &RV, out: &mut Vec<(String, RV)>) -> Option<bool> {
        Some(match pat {
            Pat::PVar { name, .. } => {
                out.push((name.clone(), v.clone()));
                true
            }
            Pat::PWild { .. } => true,
            Pat::PPrim { value, .. } => match (self.prim(value), v) {
                (RV::Unit, RV::Unit) => true,
                (RV::Bool(a), RV::Bool(b)) => a == *b,
                (RV::Int(a, _), RV::Int(b, _)) => a == *b,
                (RV::Float(a, _), RV::Float(b, _)) => a == *b,
                (RV::Str(a), RV::Str(b)) => a == *b,
                _ => return None,
            },
            Pat::PTuple { items, .. } => match v {
                RV::Tuple(vs) if vs.len() == items.len() => {
                    for (p, x) in items.iter().zip(vs.iter()) {
                        if !self.bind(p, x, out)? {
                            return Some(false);
                        }
                    }
                    true
                }
                _ => return None,
            },
            Pat::PConstr { constructor, args, .. } => match (constructor, v) {
                (Constructor::Enum(ec), RV::Enum(_, idx, payload)) => {
                    if ec.index != *idx {
                        return Some(false);
                    }
                    if args.len() != payload.len() {
                        return None;
                    }
                    for (p, x) in args.iter().zip(payload.iter()) {
                        if !self.bind(p, x, out)? {
                            return Some(false);
                        }
                    }
                    true
                }
                (Constructor::Struct(_), RV::Struct(_, fields)) => {
                    if args.len() != fields.len() {
                        return None;
                    }
                    for (p, x) in args.iter().zip(fields.iter()) {
                        if !self.bind(p, x, out)? {
                            return Some(false);
                        }
                    }
                    true
                }
                _ => return None,
            },
        })
    }

    fn arith(&self, gid: Gid, op: BinaryOp, l: RV, r: RV) -> R<RV> {
        use BinaryOp::*;
        match (l, r) {
            (RV::Int(a, k), RV::Int(b, _)) => Ok(match op {
                Add => RV::Int(k.wrap(a + b), k),
                Sub => RV::Int(k.wrap(a - b), k),
                Mul => RV::Int(k.wrap(a.wrapping_mul(b)), k),
                Div => {
                    if b == 0 {
                        return self.fail(gid, "integer divide by zero");
                    }
                    RV::Int(k.wrap(a / b), k)
                }
                Less => RV::Bool(a < b),
                Greater => RV::Bool(a > b),
                LessEq => RV::Bool(a <= b),
                GreaterEq => RV::Bool(a >= b),
                Eq => RV::Bool(a == b),
                NotEq => RV::Bool(a != b),
                And | Or => return self.unsupported("logical op on ints"),
            }),
            (RV::Float(a, s), RV::Float(b, _)) => {
                let w = |v: f64| if s { v as f32 as f64 } else { v };
                Ok(match op {
                    Add => RV::Float(w(a + b), s),
                    Sub => RV::Float(w(a - b), s),
                    Mul => RV::Float(w(a * b), s),
                    Div => RV::Float(w(a / b), s),
                    Less => RV::Bool(a < b),
                    Greater => RV::Bool(a > b),
                    LessEq => RV::Bool(a <= b),
                    GreaterEq => RV::Bool(a >= b),
                    Eq => RV::Bool(a == b),
                    NotEq => RV::Bool(a != b),
                    And | Or => return self.unsupported("logical op on floats"),
                })
            }
            (RV::Str(a), RV::Str(b)) => Ok(match op {
                Add => RV::Str(format!("{a}{b}").into()),
                Less => RV::Bool(a < b),
                Greater => RV::Bool(a > b),
                LessEq => RV::Bool(a <= b),
                GreaterEq => RV::Bool(a >= b),
                Eq => RV::Bool(a == b),
                NotEq => RV::Bool(a != b),
                _ => return self.unsupported("string operator"),
            }),
            (RV::Bool(a), RV::Bool(b)) => Ok(match op {
                Eq => RV::Bool(a == b),
                NotEq => RV::Bool(a != b),
                _ => return self.unsupported("bool operator"),
            }),
            (RV::Unit, RV::Unit) => Ok(match op {
                Eq => RV::Bool(true),
                NotEq => RV::Bool(false),
                _ => return self.unsupported("unit operator"),
            }),
            _ => self.unsupported("binary operator on these operands"),
        }
    }

    fn eval(&self, gid: Gid, e: &Expr, env: &mut Env, depth: u32) -> R<RV> {
        match e {
            Expr::EVar { name, .. } => {
                if let Some(v) = env.get(name) {
                    return Ok(v.clone());
                }
                Ok(RV::Fn(name.as_str().into()))
            }
            Expr::EPrim { value, .. } => Ok(self.prim(value)),
            Expr::EConstr { constructor, args, .. } => {
                let mut vals = Vec::with_capacity(args.len());
                for a in args {
                    vals.push(self.eval(gid, a, env, depth)?);
                }
                Ok(match constructor {
                    Constructor::Enum(ec) => RV::Enum(ec.type_name.0.as_str().into(), ec.index, vals),
                    Constructor::Struct(sc) => RV::Struct(sc.type_name.0.as_str().into(), vals),
                })
            }
            Expr::ETuple { items, .. } => {
                let mut vals = Vec::with_capacity(items.len());
                for a in items {
                    vals.push(self.eval(gid, a, env, depth)?);
                }
                Ok(RV::Tuple(vals))
            }
            Expr::EArray { items, .. } => {
                let mut vals = Vec::with_capacity(items.len());
                for a in items {
                    vals.push(self.eval(gid, a, env, depth)?);
                }
                Ok(RV::Array(vals))
            }
            Expr::EClosure { params, body, .. } => {
                // capture by value: the whole visible environment at creation time
                Ok(RV::Closure(Arc::new(Closure {
                    params: params.iter().map(|p| p.name.clone()).collect(),
                    body: (**body).clone(),
                    env: env.vars.clone(),
                })))
            }
            Expr::ELet { pat, value, .. } => {
                let v = self.eval(gid, value, env, depth)?;
                let mut binds = Vec::new();
                match self.bind(pat, &v, &mut binds) {
                    Some(true) => {
                        env.vars.extend(binds);
                        Ok(RV::Unit)
                    }
                    Some(false) => self.fail(gid, "let pattern does not match"),
                    None => self.unsupported("pattern shape"),
                }
            }
            Expr::EBlock { exprs, .. } => {
                let mark = env.vars.len();
                let mut last = RV::Unit;
                for x in exprs {
                    last = self.eval(gid, x, env, depth)?;
                }
                env.vars.truncate(mark);
                Ok(last)
            }
            Expr::EMatch { expr, arms, .. } => {
                let v = self.eval(gid, expr, env, depth)?;
                for arm in arms {
                    let mut binds = Vec::new();
                    match self.bind(&arm.pat, &v, &mut binds) {
                        Some(true) => {
                            let mark = env.vars.len();
                            env.vars.extend(binds);
                            let r = self.eval(gid, &arm.body, env, depth);
                            env.vars.truncate(mark);
                            return r;
                        }
                        Some(false) => continue,
                        None => return self.unsupported("pattern shape"),
                    }
                }
                self.fail(gid, "no matching arm")
            }
            Expr::EIf { cond, then_branch, else_branch, .. } => match self.eval(gid, cond, env, depth)? {
                RV::Bool(true) => self.eval(gid, then_branch, env, depth),
                RV::Bool(false) => self.eval(gid, else_branch, env, depth),
                _ => self.unsupported("non-bool condition"),
            },
            Expr::EWhile { cond, body, .. } => {
                loop {
                    match self.eval(gid, cond, env, depth)? {
                        RV::Bool(true) => {}
                        RV::Bool(false) => break,
                        _ => return self.unsupported("non-bool loop condition"),
                    }
                    self.eval(gid, body, env, depth)?;
                    self.co.yield_point(gid, Pending::Backedge)?;
                }
                Ok(RV::Unit)
            }
            Expr::EGo { expr, .. } => {
                let f = self.eval(gid, expr, env, depth)?;
                self.co.yield_point(gid, Pending::Spawn)?;
                let prog = self.prog.clone();
                let co = self.co.clone();
                let child = self.co.spawn(Some(gid), move |me| {
                    let it = RefInterp { prog, co };
                    it.call_value(me, f, Vec::new(), 0).map(|_| ())
                });
                self.co.emit(gid, Ev::Spawn { child });
                Ok(RV::Unit)
            }
            Expr::ECall { func, args, .. } => {
                let f = self.eval(gid, func, env, depth)?;
                let mut vals = Vec::with_capacity(args.len());
                for a in args {
                    vals.push(self.eval(gid, a, env, depth)?);
                }
                self.call_value(gid, f, vals, depth)
            }
            Expr::EUnary { op, expr, resolution, .. } => {
                let v = self.eval(gid, expr, env, depth)?;
                if let tast::UnaryResolution::Overloaded { trait_name } = resolution {
                    let m: Arc<str> = op.method_name().into();
                    return self.call_value(gid, RV::TraitMethod(trait_name.0.as_str().into(), m, None), vec![v], depth);
                }
                match (op, v) {
                    (UnaryOp::Not, RV::Bool(b)) => Ok(RV::Bool(!b)),
                    (UnaryOp::Neg, RV::Int(i, k)) => Ok(RV::Int(k.wrap(-i), k)),
                    (UnaryOp::Neg, RV::Float(f, s)) => Ok(RV::Float(-f, s)),
                    _ => self.unsupported("unary operator"),
                }
            }
            Expr::EProj { tuple, index, .. } => match self.eval(gid, tuple, env, depth)? {
                RV::Tuple(vs) => match vs.get(*index) {
                    Some(v) => Ok(v.clone()),
                    None => self.unsupported("tuple index"),
                },
                _ => self.unsupported("projection on non-tuple"),
            },
            Expr::EField { expr, field_name, .. } => {
                let v = self.eval(gid, expr, env, depth)?;
                match v {
                    RV::Struct(name, fields) => {
                        let def = self.prog.genv.type_env.structs.get(&tast::TastIdent(name.to_string()));
                        let Some(def) = def else { return self.unsupported(format!("struct {name} not in env")) };
                        match def.fields.iter().position(|(n, _)| n.0 == *field_name) {
                            Some(i) if i < fields.len() => Ok(fields[i].clone()),
                            _ => self.unsupported("field lookup"),
                        }
                    }
                    _ => self.unsupported("field access on non-struct"),
                }
            }
            Expr::EBinary { op, lhs, rhs, resolution, .. } => {
                if let tast::BinaryResolution::Overloaded { trait_name } = resolution {
                    let l = self.eval(gid, lhs, env, depth)?;
                    let r = self.eval(gid, rhs, env, depth)?;
                    let m: Arc<str> = op.method_name().into();
                    return self.call_value(gid, RV::TraitMethod(trait_name.0.as_str().into(), m, None), vec![l, r], depth);
                }
                match op {
                    BinaryOp::And => match self.eval(gid, lhs, env, depth)? {
                        RV::Bool(false) => Ok(RV::Bool(false)),
                        RV::Bool(true) => self.eval(gid, rhs, env, depth),
                        _ => self.unsupported("&& on non-bool"),
                    },
                    BinaryOp::Or => match self.eval(gid, lhs, env, depth)? {
                        RV::Bool(true) => Ok(RV::Bool(true)),
                        RV::Bool(false) => self.eval(gid, rhs, env, depth),
                        _ => self.unsupported("|| on non-bool"),
                    },
                    _ => {
                        let l = self.eval(gid, lhs, env, depth)?;
                        let r = self.eval(gid, rhs, env, depth)?;
                        self.arith(gid, *op, l, r)
                    }
                }
            }
            Expr::ETraitMethod { trait_name, method_name, ty, .. } => {
                let recv = match ty {
                    Ty::TFunc { params, .. } => params.first().cloned(),
                    _ => None,
                };
                Ok(RV::TraitMethod(trait_name.0.as_str().into(), method_name.0.as_str().into(), recv))
            }
            Expr::EDynTraitMethod { trait_name, method_name, .. } => {
                Ok(RV::TraitMethod(trait_name.0.as_str().into(), method_name.0.as_str().into(), None))
            }
            Expr::EInherentMethod { receiver_ty, method_name, .. } => {
                Ok(RV::Inherent(receiver_ty.clone(), method_name.0.as_str().into()))
            }
            Expr::EToDyn { trait_name, for_ty, expr, .. } => {
                let v = self.eval(gid, expr, env, depth)?;
                Ok(RV::Dyn(trait_name.0.as_str().into(), Box::new(v), for_ty.clone()))
            }
        }
    }
}

/// Start the program's `main` as activation 0.
pub fn start(prog: Arc<RefProg>, co: &Arc<Co>) {
    let co2 = co.clone();
    co.spawn(None, move |me| {
        let it = RefInterp { prog, co: co2 };
        let Some(f) = it.prog.func("main") else {
            return Err(Unwind::Unsupported("reference model: no main function".into()));
        };
        it.call_fn(me, f, Vec::new(), 0).map(|_| ())
    });
}
