//! Interpreter for the emitted program: walks `compiler::go::goast::File` (what go_file + DCE
//! produce and to_pretty prints). Stub for the Go compiler + runtime; goroutines are coroutines
//! of `co`, yielding before every effect and shared read and at loop back-edges.

use super::co::{Co, Ev, Gid, Pending, R, Unwind};
use compiler::go::goast::{self, Expr, GoBinaryOp, GoUnaryOp, Stmt};
use compiler::go::goty::GoType;
use std::collections::HashMap;
use std::sync::{Arc, Mutex};

#[derive(Debug)]
pub struct Cell {
    pub id: usize,
    /// a goml `Ref[T]` cell (struct ref_<ty>_x behind a pointer): the only mutable shared
    /// objects of an emitted program. Other pointers (vtables) are immutable after creation;
    /// reading them is not a scheduling point and not an event.
    pub shared: bool,
    pub v: Mutex<V>,
}

#[derive(Clone, Debug)]
pub enum V {
    Unit,
    Bool(bool),
    Int(i128),
    Float(f64),
    Str(Arc<str>),
    Struct(Arc<str>, Vec<(Arc<str>, V)>),
    Array(Vec<V>),
    Slice(Arc<Vec<V>>),
    Ptr(Arc<Cell>),
    Func(Arc<str>),
    Nil,
}

pub fn render(v: &V) -> String {
    match v {
        V::Unit => "()".into(),
        V::Bool(b) => b.to_string(),
        V::Int(i) => i.to_string(),
        V::Float(f) => format!("{f}"),
        V::Str(s) => format!("{:?}", &**s),
        _ => "*".into(),
    }
}

pub struct ProgData {
    pub file: goast::File,
    fns: HashMap<String, usize>,
    structs: HashMap<String, usize>,
    aliases: HashMap<String, GoType>,
    interfaces: HashMap<String, ()>,
}

impl ProgData {
    pub fn new(file: goast::File) -> ProgData {
        let mut fns = HashMap::new();
        let mut structs = HashMap::new();
        let mut aliases = HashMap::new();
        let mut interfaces = HashMap::new();
        for (i, item) in file.toplevels.iter().enumerate() {
            match item {
                goast::Item::Fn(f) => {
                    fns.insert(f.name.clone(), i);
                }
                goast::Item::Struct(s) => {
                    structs.insert(s.name.clone(), i);
                }
                goast::Item::TypeAlias(a) => {
                    aliases.insert(a.name.clone(), a.ty.clone());
                }
                goast::Item::Interface(it) => {
                    interfaces.insert(it.name.clone(), ());
                }
                _ => {}
            }
        }
        ProgData { file, fns, structs, aliases, interfaces }
    }

    fn func(&self, name: &str) -> Option<&goast::Fn> {
        self.fns.get(name).map(|i| match &self.file.toplevels[*i] {
            goast::Item::Fn(f) => f,
            _ => unreachable!(),
        })
    }

    fn strukt(&self, name: &str) -> Option<&goast::Struct> {
        self.structs.get(name).map(|i| match &self.file.toplevels[*i] {
            goast::Item::Struct(s) => s,
            _ => unreachable!(),
        })
    }

    /// Imported Go packages other than fmt/time make the program unsupported.
    pub fn unsupported_imports(&self) -> Option<String> {
        for item in &self.file.toplevels {
            if let goast::Item::Import(im) = item {
                for s in &im.specs {
                    if s.path != "fmt" && s.path != "time" {
                        return Some(format!("import {:?}", s.path));
                    }
                }
            }
        }
        None
    }
}

fn int_bits(ty: &GoType) -> Option<(u32, bool)> {
    Some(match ty {
        GoType::TInt8 => (8, true),
        GoType::TInt16 => (16, true),
        GoType::TInt32 => (32, true),
        GoType::TInt64 => (64, true),
        GoType::TUint8 => (8, false),
        GoType::TUint16 => (16, false),
        GoType::TUint32 => (32, false),
        GoType::TUint64 => (64, false),
        _ => return None,
    })
}

fn wrap_bits(v: i128, bits: u32, signed: bool) -> i128 {
    let m: i128 = 1i128 << bits;
    let mut r = v.rem_euclid(m);
    if signed && r >= (m >> 1) {
        r -= m;
    }
    r
}

struct Frame<'a> {
    vars: Vec<(&'a str, V)>,
}

impl<'a> Frame<'a> {
    fn get(&self, n: &str) -> Option<&V> {
        self.vars.iter().rev().find(|(k, _)| *k == n).map(|(_, v)| v)
    }
    fn get_mut(&mut self, n: &str) -> Option<&mut V> {
        self.vars.iter_mut().rev().find(|(k, _)| *k == n).map(|(_, v)| v)
    }
}

enum Flow {
    Normal,
    Break,
    Return(V),
}

pub struct Interp {
    pub prog: Arc<ProgData>,
    pub co: Arc<Co>,
}

const MAX_DEPTH: u32 = 3000;

impl Interp {
    fn resolve<'t>(&'t self, ty: &'t GoType) -> &'t GoType {
        let mut t = ty;
        for _ in 0..8 {
            if let GoType::TName { name } = t {
                if let Some(a) = self.prog.aliases.get(name) {
                    t = a;
                    continue;
                }
            }
            break;
        }
        t
    }

    fn bits_of(&self, ty: &GoType) -> Option<(u32, bool)> {
        let t = self.resolve(ty);
        if let Some(b) = int_bits(t) {
            return Some(b);
        }
        if let GoType::TName { name } = t {
            if name == "time.Duration" {
                return Some((64, true));
            }
        }
        None
    }

    fn zero(&self, ty: &GoType) -> V {
        match self.resolve(ty) {
            GoType::TVoid | GoType::TUnit => V::Unit,
            GoType::TBool => V::Bool(false),
            GoType::TInt8 | GoType::TInt16 | GoType::TInt32 | GoType::TInt64 | GoType::TUint8 | GoType::TUint16
            | GoType::TUint32 | GoType::TUint64 => V::Int(0),
            GoType::TFloat32 | GoType::TFloat64 => V::Float(0.0),
            GoType::TString => V::Str("".into()),
            GoType::TStruct { name, fields } => V::Struct(
                name.as_str().into(),
                fields.iter().map(|(n, t)| (Arc::<str>::from(n.as_str()), self.zero(t))).collect(),
            ),
            GoType::TPointer { .. } | GoType::TFunc { .. } | GoType::TSlice { .. } => V::Nil,
            GoType::TArray { len, elem } => V::Array((0..*len).map(|_| self.zero(elem)).collect()),
            GoType::TName { name } => {
                if name == "time.Duration" {
                    return V::Int(0);
                }
                match self.prog.strukt(name) {
                    Some(s) => V::Struct(
                        name.as_str().into(),
                        s.fields.iter().map(|f| (Arc::<str>::from(f.name.as_str()), self.zero(&f.ty))).collect(),
                    ),
                    None => V::Nil, // interface / any
                }
            }
        }
    }

    fn fail<T>(&self, gid: Gid, msg: &str) -> R<T> {
        self.co.yield_point(gid, Pending::Fail)?;
        Err(Unwind::Panic(msg.to_string()))
    }

    fn unsupported<T>(&self, what: impl Into<String>) -> R<T> {
        Err(Unwind::Unsupported(what.into()))
    }

    fn invalid<T>(&self, what: impl Into<String>) -> R<T> {
        Err(Unwind::Invalid(what.into()))
    }

    pub fn call_fn(&self, gid: Gid, f: &goast::Fn, args: Vec<V>, depth: u32) -> R<V> {
        if depth > MAX_DEPTH {
            return self.unsupported("call depth limit");
        }
        if f.params.len() != args.len() {
            return self.invalid(format!("arity mismatch calling {}", f.name));
        }
        let mut fr = Frame { vars: Vec::with_capacity(16) };
        for ((n, _), v) in f.params.iter().zip(args) {
            fr.vars.push((n.as_str(), v));
        }
        match self.block(gid, &f.body.stmts, &mut fr, depth)? {
            Flow::Return(v) => Ok(v),
            _ => Ok(V::Unit),
        }
    }

    fn block<'a>(&'a self, gid: Gid, stmts: &'a [Stmt], fr: &mut Frame<'a>, depth: u32) -> R<Flow> {
        let mark = fr.vars.len();
        for s in stmts {
            match self.stmt(gid, s, fr, depth)? {
                Flow::Normal => {}
                other => {
                    fr.vars.truncate(mark);
                    return Ok(other);
                }
            }
        }
        fr.vars.truncate(mark);
        Ok(Flow::Normal)
    }

    fn store_field(&self, gid: Gid, target: &V, field: &str, value: V) -> R<bool> {
        if let V::Ptr(cell) = target {
            if !cell.shared {
                let mut g = cell.v.lock().unwrap_or_else(|e| e.into_inner());
                if let V::Struct(_, fields) = &mut *g {
                    if let Some(slot) = fields.iter_mut().find(|(n, _)| &**n == field) {
                        slot.1 = value;
                    }
                }
                return Ok(true);
            }
            self.co.yield_point(gid, Pending::Store(cell.id))?;
            let mut g = cell.v.lock().unwrap_or_else(|e| e.into_inner());
            if let V::Struct(_, fields) = &mut *g {
                if let Some(slot) = fields.iter_mut().find(|(n, _)| &**n == field) {
                    slot.1 = value.clone();
                }
            }
            drop(g);
            self.co.emit(gid, Ev::Store { cell: cell.id, val: render(&value) });
            return Ok(true);
        }
        Ok(false)
    }

    fn stmt<'a>(&'a self, gid: Gid, s: &'a Stmt, fr: &mut Frame<'a>, depth: u32) -> R<Flow> {
        match s {
            Stmt::Expr(e) => {
                self.expr(gid, e, fr, depth)?;
                Ok(Flow::Normal)
            }
            Stmt::Go { call } => {
                let Expr::Call { func, args, .. } = call else {
                    return self.unsupported("go statement without call");
                };
                // Go evaluates the function value and the arguments in the spawner
                let fname = self.callee_name(gid, func, fr, depth)?;
                let mut vals = Vec::new();
                for a in args {
                    vals.push(self.expr(gid, a, fr, depth)?);
                }
                self.co.yield_point(gid, Pending::Spawn)?;
                let prog = self.prog.clone();
                let co = self.co.clone();
                let child = self.co.spawn(Some(gid), move |me| {
                    let it = Interp { prog, co };
                    let Some(f) = it.prog.func(&fname) else {
                        return Err(Unwind::Unsupported(format!("go on non-function {fname}")));
                    };
                    // SAFETY of lifetimes: `it` lives for the whole call
                    it.call_fn(me, f, vals, 0).map(|_| ())
                });
                self.co.emit(gid, Ev::Spawn { child });
                Ok(Flow::Normal)
            }
            Stmt::VarDecl { name, ty, value } => {
                let v = match value {
                    Some(e) => self.expr(gid, e, fr, depth)?,
                    None => self.zero(ty),
                };
                fr.vars.push((name.as_str(), v));
                Ok(Flow::Normal)
            }
            Stmt::Assignment { name, value } => {
                let v = self.expr(gid, value, fr, depth)?;
                if name == "_" {
                    return Ok(Flow::Normal);
                }
                match fr.get_mut(name) {
                    Some(slot) => *slot = v,
                    None => return self.invalid(format!("assignment to unknown variable {name}")),
                }
                Ok(Flow::Normal)
            }
            Stmt::FieldAssign { target, value } => {
                let Expr::FieldAccess { obj, field, .. } = target else {
                    return self.unsupported("field assignment to non-field");
                };
                let v = self.expr(gid, value, fr, depth)?;
                // pointer target: shared store
                if let Expr::Var { name, .. } = &**obj {
                    let cur = fr.get(name).cloned();
                    match cur {
                        Some(p @ V::Ptr(_)) => {
                            self.store_field(gid, &p, field, v)?;
                            return Ok(Flow::Normal);
                        }
                        Some(V::Struct(..)) => {
                            if let Some(V::Struct(_, fields)) = fr.get_mut(name) {
                                if let Some(slot) = fields.iter_mut().find(|(n, _)| &**n == field.as_str()) {
                                    slot.1 = v;
                                }
                            }
                            return Ok(Flow::Normal);
                        }
                        _ => return self.unsupported("field assignment on unexpected value"),
                    }
                }
                let t = self.expr(gid, obj, fr, depth)?;
                if self.store_field(gid, &t, field, v)? {
                    Ok(Flow::Normal)
                } else {
                    self.unsupported("field assignment through non-pointer expression")
                }
            }
            Stmt::PointerAssign { pointer, value } => {
                let p = self.expr(gid, pointer, fr, depth)?;
                let v = self.expr(gid, value, fr, depth)?;
                if let V::Ptr(cell) = p {
                    self.co.yield_point(gid, Pending::Store(cell.id))?;
                    *cell.v.lock().unwrap_or_else(|e| e.into_inner()) = v.clone();
                    self.co.emit(gid, Ev::Store { cell: cell.id, val: render(&v) });
                    Ok(Flow::Normal)
                } else {
                    self.fail(gid, "nil pointer dereference")
                }
            }
            Stmt::IndexAssign { array, index, value } => {
                let idx = self.expr(gid, index, fr, depth)?;
                let v = self.expr(gid, value, fr, depth)?;
                let V::Int(i) = idx else { return self.unsupported("non-integer index") };
                let Expr::Var { name, .. } = array else {
                    return self.unsupported("index assignment to non-variable");
                };
                let len = match fr.get(name) {
                    Some(V::Array(a)) => a.len() as i128,
                    Some(V::Slice(a)) => a.len() as i128,
                    _ => return self.unsupported("index assignment on non-array"),
                };
                if i < 0 || i >= len {
                    return self.fail(gid, "index out of range");
                }
                match fr.get_mut(name) {
                    Some(V::Array(a)) => a[i as usize] = v,
                    Some(V::Slice(a)) => Arc::make_mut(a)[i as usize] = v,
                    _ => {}
                }
                Ok(Flow::Normal)
            }
            Stmt::Return { expr } => {
                let v = match expr {
                    Some(e) => self.expr(gid, e, fr, depth)?,
                    None => V::Unit,
                };
                Ok(Flow::Return(v))
            }
            Stmt::If { cond, then, else_ } => {
                let c = self.expr(gid, cond, fr, depth)?;
                match c {
                    V::Bool(true) => self.block(gid, &then.stmts, fr, depth),
                    V::Bool(false) => match else_ {
                        Some(b) => self.block(gid, &b.stmts, fr, depth),
                        None => Ok(Flow::Normal),
                    },
                    _ => self.unsupported("non-bool condition"),
                }
            }
            Stmt::Loop { body } => loop {
                match self.block(gid, &body.stmts, fr, depth)? {
                    Flow::Normal => {}
                    Flow::Break => return Ok(Flow::Normal),
                    r @ Flow::Return(_) => return Ok(r),
                }
                self.co.yield_point(gid, Pending::Backedge)?;
            },
            Stmt::Break => Ok(Flow::Break),
            Stmt::SwitchExpr { expr, cases, default } => {
                let v = self.expr(gid, expr, fr, depth)?;
                for (cv, blk) in cases {
                    let c = self.expr(gid, cv, fr, depth)?;
                    if values_equal(&v, &c) {
                        // as in Go: `break` inside a switch leaves the switch, not an enclosing loop
                        return Ok(match self.block(gid, &blk.stmts, fr, depth)? {
                            Flow::Break => Flow::Normal,
                            other => other,
                        });
                    }
                }
                match default {
                    Some(b) => Ok(match self.block(gid, &b.stmts, fr, depth)? {
                        Flow::Break => Flow::Normal,
                        other => other,
                    }),
                    None => Ok(Flow::Normal),
                }
            }
            Stmt::SwitchType { bind, expr, cases, default } => {
                let v = self.expr(gid, expr, fr, depth)?;
                let dynname: Option<Arc<str>> = match &v {
                    V::Struct(n, _) => Some(n.clone()),
                    _ => None,
                };
                let mark = fr.vars.len();
                if let Some(b) = bind {
                    fr.vars.push((b.as_str(), v.clone()));
                }
                let mut chosen: Option<&goast::Block> = None;
                for (ty, blk) in cases {
                    let tn = match ty {
                        GoType::TName { name } => Some(name.as_str()),
                        GoType::TStruct { name, .. } => Some(name.as_str()),
                        _ => None,
                    };
                    if let (Some(tn), Some(dn)) = (tn, dynname.as_deref()) {
                        if tn == dn {
                            chosen = Some(blk);
                            break;
                        }
                    }
                }
                let r = match (chosen, default) {
                    (Some(b), _) => self.block(gid, &b.stmts, fr, depth),
                    (None, Some(b)) => self.block(gid, &b.stmts, fr, depth),
                    (None, None) => Ok(Flow::Normal),
                };
                fr.vars.truncate(mark);
                match r {
                    Ok(Flow::Break) => Ok(Flow::Normal),
                    other => other,
                }
            }
        }
    }

    fn callee_name<'a>(&'a self, gid: Gid, func: &'a Expr, fr: &mut Frame<'a>, depth: u32) -> R<String> {
        if let Expr::Var { name, .. } = func {
            if let Some(V::Func(n)) = fr.get(name) {
                return Ok(n.to_string());
            }
            return Ok(name.clone());
        }
        match self.expr(gid, func, fr, depth)? {
            V::Func(n) => Ok(n.to_string()),
            V::Nil => self.fail(gid, "call of nil function"),
            _ => self.invalid("call of non-function value"),
        }
    }

    fn expr<'a>(&'a self, gid: Gid, e: &'a Expr, fr: &mut Frame<'a>, depth: u32) -> R<V> {
        match e {
            Expr::Nil { .. } => Ok(V::Nil),
            Expr::Void { .. } | Expr::Unit { .. } => Ok(V::Unit),
            Expr::Var { name, .. } => {
                if let Some(v) = fr.get(name) {
                    return Ok(v.clone());
                }
                if self.prog.func(name).is_some() {
                    return Ok(V::Func(name.as_str().into()));
                }
                self.invalid(format!("unknown variable {name}"))
            }
            Expr::Bool { value, .. } => Ok(V::Bool(*value)),
            Expr::Int { value, ty } => {
                let v: i128 = match value.parse::<i128>() {
                    Ok(v) => v,
                    Err(_) => return self.unsupported(format!("integer literal {value}")),
                };
                Ok(V::Int(match self.bits_of(ty) {
                    Some((b, s)) => wrap_bits(v, b, s),
                    None => v,
                }))
            }
            Expr::Float { value, ty } => Ok(V::Float(match self.resolve(ty) {
                GoType::TFloat32 => *value as f32 as f64,
                _ => *value,
            })),
            Expr::String { value, .. } => Ok(V::Str(value.as_str().into())),
            Expr::Call { func, args, ty } => self.call(gid, func, args, ty, fr, depth),
            Expr::UnaryOp { op, expr, ty } => {
                match op {
                    GoUnaryOp::AddrOf => {
                        let v = self.expr(gid, expr, fr, depth)?;
                        let shared = matches!(&v, V::Struct(n, f) if n.starts_with("ref_") && n.ends_with("_x") && f.len() == 1);
                        let id = if shared {
                            let init = match &v {
                                V::Struct(_, f) => render(&f[0].1),
                                _ => "*".to_string(),
                            };
                            self.co.new_cell(init)
                        } else {
                            usize::MAX
                        };
                        Ok(V::Ptr(Arc::new(Cell { id, shared, v: Mutex::new(v) })))
                    }
                    GoUnaryOp::Deref => {
                        let v = self.expr(gid, expr, fr, depth)?;
                        match v {
                            V::Ptr(cell) => {
                                if cell.shared {
                                    self.co.yield_point(gid, Pending::Load(cell.id))?;
                                }
                                let val = cell.v.lock().unwrap_or_else(|e| e.into_inner()).clone();
                                if cell.shared {
                                    self.co.emit(gid, Ev::Load { cell: cell.id, val: render(&val) });
                                }
                                Ok(val)
                            }
                            _ => self.fail(gid, "nil pointer dereference"),
                        }
                    }
                    GoUnaryOp::Not => match self.expr(gid, expr, fr, depth)? {
                        V::Bool(b) => Ok(V::Bool(!b)),
                        _ => self.unsupported("! on non-bool"),
                    },
                    GoUnaryOp::Neg => match self.expr(gid, expr, fr, depth)? {
                        V::Int(i) => Ok(V::Int(match self.bits_of(ty) {
                            Some((b, s)) => wrap_bits(-i, b, s),
                            None => -i,
                        })),
                        V::Float(f) => Ok(V::Float(-f)),
                        _ => self.unsupported("- on non-number"),
                    },
                }
            }
            Expr::BinaryOp { op, lhs, rhs, ty } => {
                // Go's && and || short-circuit
                if matches!(op, GoBinaryOp::And | GoBinaryOp::Or) {
                    let l = self.expr(gid, lhs, fr, depth)?;
                    let V::Bool(lb) = l else { return self.unsupported("logical op on non-bool") };
                    if matches!(op, GoBinaryOp::And) && !lb {
                        return Ok(V::Bool(false));
                    }
                    if matches!(op, GoBinaryOp::Or) && lb {
                        return Ok(V::Bool(true));
                    }
                    return self.expr(gid, rhs, fr, depth);
                }
                let l = self.expr(gid, lhs, fr, depth)?;
                let r = self.expr(gid, rhs, fr, depth)?;
                self.binop(gid, *op, l, r, ty, lhs.get_ty())
            }
            Expr::FieldAccess { obj, field, .. } => {
                let o = self.expr(gid, obj, fr, depth)?;
                match o {
                    V::Struct(_, fields) => match fields.iter().find(|(n, _)| &**n == field.as_str()) {
                        Some((_, v)) => Ok(v.clone()),
                        None => self.invalid(format!("no field {field}")),
                    },
                    V::Ptr(cell) => {
                        if cell.shared {
                            self.co.yield_point(gid, Pending::Load(cell.id))?;
                        }
                        let g = cell.v.lock().unwrap_or_else(|e| e.into_inner());
                        let val = match &*g {
                            V::Struct(_, fields) => fields.iter().find(|(n, _)| &**n == field.as_str()).map(|(_, v)| v.clone()),
                            _ => None,
                        };
                        drop(g);
                        match val {
                            Some(v) => {
                                if cell.shared {
                                    self.co.emit(gid, Ev::Load { cell: cell.id, val: render(&v) });
                                }
                                Ok(v)
                            }
                            None => self.unsupported(format!("no field {field} behind pointer")),
                        }
                    }
                    V::Nil => self.fail(gid, "nil pointer dereference"),
                    _ => self.invalid("field access on non-struct"),
                }
            }
            Expr::Index { array, index, .. } => {
                let a = self.expr(gid, array, fr, depth)?;
                let i = self.expr(gid, index, fr, depth)?;
                let V::Int(i) = i else { return self.unsupported("non-integer index") };
                match a {
                    V::Array(xs) => {
                        if i < 0 || i as usize >= xs.len() {
                            return self.fail(gid, "index out of range");
                        }
                        Ok(xs[i as usize].clone())
                    }
                    V::Slice(xs) => {
                        if i < 0 || i as usize >= xs.len() {
                            return self.fail(gid, "index out of range");
                        }
                        Ok(xs[i as usize].clone())
                    }
                    V::Nil => self.fail(gid, "index out of range"),
                    V::Str(s) => {
                        let b = s.as_bytes();
                        if i < 0 || i as usize >= b.len() {
                            return self.fail(gid, "index out of range");
                        }
                        Ok(V::Int(b[i as usize] as i128))
                    }
                    _ => self.unsupported("index on non-array"),
                }
            }
            Expr::Cast { expr, ty } => {
                // type assertion x.(T)
                let v = self.expr(gid, expr, fr, depth)?;
                let want = match ty {
                    GoType::TName { name } => Some(name.as_str()),
                    GoType::TStruct { name, .. } => Some(name.as_str()),
                    _ => None,
                };
                match (&v, want) {
                    (V::Struct(n, _), Some(w)) if &**n == w => Ok(v),
                    (V::Struct(_, _), Some(w)) if self.prog.interfaces.contains_key(w) => Ok(v),
                    (V::Struct(..), Some(_)) => self.fail(gid, "interface conversion"),
                    (V::Nil, _) => self.fail(gid, "interface conversion: nil"),
                    _ => Ok(v), // primitives carried in `any`
                }
            }
            Expr::StructLiteral { fields, ty } => {
                let name: Arc<str> = match ty {
                    GoType::TName { name } => name.as_str().into(),
                    GoType::TStruct { name, .. } => name.as_str().into(),
                    _ => return self.unsupported("struct literal of non-struct type"),
                };
                // start from the zero value so that omitted fields exist
                let mut val = match self.zero(ty) {
                    V::Struct(_, f) => f,
                    _ => Vec::new(),
                };
                let declared = self.prog.strukt(&name).is_some() || matches!(ty, GoType::TStruct { .. });
                for (n, fe) in fields {
                    let v = self.expr(gid, fe, fr, depth)?;
                    match val.iter_mut().find(|(k, _)| &**k == n.as_str()) {
                        Some(slot) => slot.1 = v,
                        None => {
                            if declared {
                                // Go rejects a composite literal naming a field the type lacks
                                return self.invalid(format!("unknown field {n} in struct literal of type {name}"));
                            }
                            val.push((n.as_str().into(), v))
                        }
                    }
                }
                Ok(V::Struct(name, val))
            }
            Expr::ArrayLiteral { elems, ty } => {
                let mut vals = Vec::new();
                for x in elems {
                    vals.push(self.expr(gid, x, fr, depth)?);
                }
                match ty {
                    GoType::TSlice { .. } => Ok(V::Slice(Arc::new(vals))),
                    _ => Ok(V::Array(vals)),
                }
            }
            Expr::Block { stmts, expr, .. } => {
                let mark = fr.vars.len();
                for s in stmts {
                    match self.stmt(gid, s, fr, depth)? {
                        Flow::Normal => {}
                        _ => return self.unsupported("control flow out of block expression"),
                    }
                }
                let v = match expr {
                    Some(e) => self.expr(gid, e, fr, depth)?,
                    None => V::Unit,
                };
                fr.vars.truncate(mark);
                Ok(v)
            }
        }
    }

    fn binop(&self, gid: Gid, op: GoBinaryOp, l: V, r: V, ty: &GoType, lty: &GoType) -> R<V> {
        use GoBinaryOp::*;
        match (l, r) {
            (V::Int(a), V::Int(b)) => {
                let bits = self.bits_of(ty).or_else(|| self.bits_of(lty));
                let w = |v: i128| match bits {
                    Some((b, s)) => wrap_bits(v, b, s),
                    None => v,
                };
                Ok(match op {
                    Add => V::Int(w(a + b)),
                    Sub => V::Int(w(a - b)),
                    Mul => V::Int(w(a.wrapping_mul(b))),
                    Div => {
                        if b == 0 {
                            return self.fail(gid, "integer divide by zero");
                        }
                        V::Int(w(a / b))
                    }
                    Less => V::Bool(a < b),
                    Greater => V::Bool(a > b),
                    LessEq => V::Bool(a <= b),
                    GreaterEq => V::Bool(a >= b),
                    Eq => V::Bool(a == b),
                    NotEq => V::Bool(a != b),
                    And | Or => return self.unsupported("logical op on ints"),
                })
            }
            (V::Float(a), V::Float(b)) => {
                let f32 = matches!(self.resolve(ty), GoType::TFloat32) || matches!(self.resolve(lty), GoType::TFloat32);
                let w = |v: f64| if f32 { v as f32 as f64 } else { v };
                Ok(match op {
                    Add => V::Float(w(a + b)),
                    Sub => V::Float(w(a - b)),
                    Mul => V::Float(w(a * b)),
                    Div => V::Float(w(a / b)),
                    Less => V::Bool(a < b),
                    Greater => V::Bool(a > b),
                    LessEq => V::Bool(a <= b),
                    GreaterEq => V::Bool(a >= b),
                    Eq => V::Bool(a == b),
                    NotEq => V::Bool(a != b),
                    And | Or => return self.unsupported("logical op on floats"),
                })
            }
            (V::Str(a), V::Str(b)) => Ok(match op {
                Add => V::Str(format!("{a}{b}").into()),
                Less => V::Bool(a < b),
                Greater => V::Bool(a > b),
                LessEq => V::Bool(a <= b),
                GreaterEq => V::Bool(a >= b),
                Eq => V::Bool(a == b),
                NotEq => V::Bool(a != b),
                _ => return self.unsupported("string operator"),
            }),
            (l, r) => match op {
                Eq => Ok(V::Bool(values_equal(&l, &r))),
                NotEq => Ok(V::Bool(!values_equal(&l, &r))),
                _ => self.unsupported("binary operator on these operands"),
            },
        }
    }

    fn call<'a>(&'a self, gid: Gid, func: &'a Expr, args: &'a [Expr], ty: &'a GoType, fr: &mut Frame<'a>, depth: u32) -> R<V> {
        // Go evaluates the function value, then the arguments left to right
        let name = self.callee_name(gid, func, fr, depth)?;
        let mut vals = Vec::with_capacity(args.len());
        for a in args {
            vals.push(self.expr(gid, a, fr, depth)?);
        }
        if let Some(f) = self.prog.func(&name) {
            return self.call_fn(gid, f, vals, depth + 1);
        }
        match name.as_str() {
            "fmt.Print" | "fmt.Println" => {
                let mut text = String::new();
                for (i, v) in vals.iter().enumerate() {
                    if i > 0 && name == "fmt.Println" {
                        text.push(' ');
                    }
                    text.push_str(&go_print(v));
                }
                if name == "fmt.Println" {
                    text.push('\n');
                }
                self.co.yield_point(gid, Pending::Print)?;
                self.co.emit(gid, Ev::Print(text));
                Ok(V::Unit)
            }
            "println" => Ok(V::Unit), // builtin println writes to stderr
            "panic" => {
                let msg = vals.first().map(go_print).unwrap_or_default();
                self.fail(gid, &format!("panic: {msg}"))
            }
            "fmt.Sprintf" => {
                let Some(V::Str(f)) = vals.first() else { return self.unsupported("Sprintf format") };
                match (&**f, vals.get(1)) {
                    ("%d", Some(V::Int(i))) => Ok(V::Str(i.to_string().into())),
                    ("%d", Some(V::Float(x))) => {
                        let t = if matches!(self.resolve(args[1].get_ty()), GoType::TFloat32) { "float32" } else { "float64" };
                        Ok(V::Str(format!("%!d({}={})", t, go_float(*x, t == "float32")).into()))
                    }
                    ("%q", Some(V::Str(s))) => Ok(V::Str(go_quote(s).into())),
                    ("%v", Some(v)) | ("%s", Some(v)) => Ok(V::Str(go_print(v).into())),
                    _ => self.unsupported(format!("Sprintf({f:?})")),
                }
            }
            "len" => match vals.first() {
                Some(V::Str(s)) => Ok(V::Int(s.len() as i128)),
                Some(V::Slice(s)) => Ok(V::Int(s.len() as i128)),
                Some(V::Array(s)) => Ok(V::Int(s.len() as i128)),
                Some(V::Nil) => Ok(V::Int(0)),
                _ => self.unsupported("len"),
            },
            "append" => {
                let mut base: Vec<V> = match vals.first() {
                    Some(V::Slice(s)) => (**s).clone(),
                    Some(V::Nil) => Vec::new(),
                    _ => return self.unsupported("append"),
                };
                base.extend(vals.into_iter().skip(1));
                Ok(V::Slice(Arc::new(base)))
            }
            "int8" | "int16" | "int32" | "int64" | "uint8" | "uint16" | "uint32" | "uint64" | "int" => {
                let (bits, signed) = match name.as_str() {
                    "int8" => (8, true),
                    "int16" => (16, true),
                    "int32" => (32, true),
                    "int64" | "int" => (64, true),
                    "uint8" => (8, false),
                    "uint16" => (16, false),
                    "uint32" => (32, false),
                    _ => (64, false),
                };
                match vals.first() {
                    Some(V::Int(i)) => Ok(V::Int(wrap_bits(*i, bits, signed))),
                    Some(V::Float(f)) => Ok(V::Int(wrap_bits(*f as i128, bits, signed))),
                    _ => self.unsupported("integer conversion"),
                }
            }
            "float32" | "float64" => match vals.first() {
                Some(V::Int(i)) => Ok(V::Float(if name == "float32" { *i as f32 as f64 } else { *i as f64 })),
                Some(V::Float(f)) => Ok(V::Float(if name == "float32" { *f as f32 as f64 } else { *f })),
                _ => self.unsupported("float conversion"),
            },
            "string" => match vals.first() {
                Some(V::Int(i)) => {
                    // string(byte): goml only converts bytes of a string
                    let c = char::from_u32(*i as u32).unwrap_or('\u{fffd}');
                    Ok(V::Str(c.to_string().into()))
                }
                Some(V::Str(s)) => Ok(V::Str(s.clone())),
                _ => self.unsupported("string conversion"),
            },
            "time.Sleep" => match vals.first() {
                Some(V::Int(ns)) => {
                    self.co.sleep(gid, (*ns).max(0) as u64)?;
                    Ok(V::Unit)
                }
                _ => self.unsupported("time.Sleep argument"),
            },
            "time.Duration" => match vals.first() {
                Some(V::Int(i)) => Ok(V::Int(wrap_bits(*i, 64, true))),
                _ => self.unsupported("time.Duration argument"),
            },
            other => {
                let _ = ty;
                if other.contains('.') {
                    self.unsupported(format!("call of {other}"))
                } else {
                    self.invalid(format!("call of undefined function {other}"))
                }
            }
        }
    }
}

pub fn values_equal(a: &V, b: &V) -> bool {
    match (a, b) {
        (V::Unit, V::Unit) => true,
        (V::Nil, V::Nil) => true,
        (V::Bool(x), V::Bool(y)) => x == y,
        (V::Int(x), V::Int(y)) => x == y,
        (V::Float(x), V::Float(y)) => x == y,
        (V::Str(x), V::Str(y)) => x == y,
        (V::Struct(n, f), V::Struct(m, g)) => {
            n == m && f.len() == g.len() && f.iter().zip(g.iter()).all(|((_, x), (_, y))| values_equal(x, y))
        }
        (V::Array(x), V::Array(y)) => x.len() == y.len() && x.iter().zip(y.iter()).all(|(p, q)| values_equal(p, q)),
        (V::Ptr(x), V::Ptr(y)) => Arc::ptr_eq(x, y),
        (V::Func(x), V::Func(y)) => x == y,
        _ => false,
    }
}

fn go_float(x: f64, is32: bool) -> String {
    // %v formatting of floats ('g' with shortest repr, exponent for < 1e-4 or >= 1e21)
    if x.is_nan() {
        return "NaN".into();
    }
    if x.is_infinite() {
        return if x > 0.0 { "+Inf".into() } else { "-Inf".into() };
    }
    let s = if is32 { format!("{}", x as f32) } else { format!("{x}") };
    let ax = x.abs();
    if ax != 0.0 && (ax < 1e-4 || ax >= 1e21) {
        let e = if is32 { format!("{:e}", x as f32) } else { format!("{x:e}") };
        // Rust: 1e-5 ; Go: 1e-05
        if let Some((m, ex)) = e.split_once('e') {
            let (sign, digits) = match ex.strip_prefix('-') {
                Some(d) => ('-', d),
                None => ('+', ex),
            };
            return format!("{m}e{sign}{:0>2}", digits);
        }
    }
    s
}

pub fn go_print(v: &V) -> String {
    match v {
        V::Unit => "{}".into(),
        V::Bool(b) => b.to_string(),
        V::Int(i) => i.to_string(),
        V::Float(f) => go_float(*f, false),
        V::Str(s) => s.to_string(),
        V::Nil => "<nil>".into(),
        _ => "?".into(),
    }
}

pub fn go_quote(s: &str) -> String {
    let mut out = String::from("\"");
    for c in s.chars() {
        match c {
            '"' => out.push_str("\\\""),
            '\\' => out.push_str("\\\\"),
            '\n' => out.push_str("\\n"),
            '\t' => out.push_str("\\t"),
            '\r' => out.push_str("\\r"),
            '\u{7}' => out.push_str("\\a"),
            '\u{8}' => out.push_str("\\b"),
            '\u{c}' => out.push_str("\\f"),
            '\u{b}' => out.push_str("\\v"),
            c if (c as u32) < 0x20 || c as u32 == 0x7f => out.push_str(&format!("\\x{:02x}", c as u32)),
            c => out.push(c),
        }
    }
    out.push('"');
    out
}

/// Start the emitted program's `main` as goroutine 0.
pub fn start(prog: Arc<ProgData>, co: &Arc<Co>) {
    let co2 = co.clone();
    co.spawn(None, move |me| {
        let it = Interp { prog, co: co2 };
        let Some(f) = it.prog.func("main") else {
            return Err(Unwind::Unsupported("no main function".into()));
        };
        it.call_fn(me, f, Vec::new(), 0).map(|_| ())
    });
}
