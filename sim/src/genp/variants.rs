//! Error / layout variants of generated projects.

use crate::prng::Prng;

/// Source text with several *independent* errors (so diagnostic order is observable):
/// an impl missing several trait methods, and a few ill-typed functions.
pub fn multi_error_text(p: &mut Prng) -> String {
    let mut s = String::new();
    let nm = 2 + p.usize(4);
    s.push_str("\ntrait Zt {\n");
    for k in 0..nm {
        s.push_str(&format!("    fn z{}(Self) -> int32;\n", (b'a' + k as u8) as char));
    }
    s.push_str("}\n\nstruct Zs {}\n\nimpl Zt for Zs {\n}\n\n");
    let ne = 1 + p.usize(3);
    for k in 0..ne {
        match p.below(3) {
            0 => s.push_str(&format!("fn zerr{k}() -> int32 {{ \"x{k}\" }}\n")),
            1 => s.push_str(&format!("fn zerr{k}() -> string {{ {k} }}\n")),
            _ => s.push_str(&format!("fn zerr{k}(a: int32) -> int32 {{ zundefined{k}(a) }}\n")),
        }
    }
    s
}
