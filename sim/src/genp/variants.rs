//! Error / layout variants of generated projects.

use crate::prng::Prng;

/// Source text with several *independent* errors (so diagnostic order is observable):
/// an impl missing several trait methods, and a few ill-typed functions.
pub fn multi_error_text(p: &mut Prng) -> String {
    let mut s = String::new();
    let nm = 2 + p.usize(4);
    s.push_str("\ntrait Zt {\n");
    for k in 0..nm {
        s.push_str(&format!("    fn z{}(Self) -> int32;\n", (b'a' + k as u8) as char));
    }
    s.push_str("}\n\nstruct Zs {}\n\nimpl Zt for Zs {\n}\n\n");
    if p.chance(1, 3) {
        // two enums of one package share a variant name and the program uses it unqualified:
        // which enum is meant must be reported as ambiguous, the same way every time
        s.push_str("enum ZLeft {\n    ZStop,\n    ZGo(int32),\n}\n\nenum ZRight {\n    ZStop,\n    ZTurn,\n}\n\nenum ZThird {\n    ZTurn,\n    ZStop,\n}\n\nfn zpick() -> ZLeft {\n    ZStop\n}\n\nfn zpick2() -> int32 {\n    match ZTurn {\n        _ => 1,\n    }\n}\n\n");
    }
    let ne = 1 + p.usize(3);
    for k in 0..ne {
        match p.below(3) {
            0 => s.push_str(&format!("fn zerr{k}() -> int32 {{ \"x{k}\" }}\n")),
            1 => s.push_str(&format!("fn zerr{k}() -> string {{ {k} }}\n")),
            _ => s.push_str(&format!("fn zerr{k}(a: int32) -> int32 {{ zundefined{k}(a) }}\n")),
        }
    }
    s
}

use crate::genp::project::Project;
use crate::world::Files;

#[derive(Clone, Debug, PartialEq, serde::Serialize, serde::Deserialize)]
pub enum Illegal {
    /// P names Q::item, Q is in the project (loaded through somebody else) but P does not import it
    NotImported,
    /// P mentions an item of a *transitive* (loaded, not imported) package in a position that
    /// is not a plain call: signature type, let annotation, closure parameter annotation,
    /// generic bound, trait-method path, inherent-method path
    NotImportedVia(Via),
    /// import of a package with no directory
    MissingPackage,
    /// a file in a package directory declares another package name
    MisnamedPackage,
    /// an import back edge (cycle through two or more packages)
    Cycle,
    /// a package imports itself
    SelfImport,
    /// a library imports Main
    CycleViaMain,
    /// impl of a foreign trait for a foreign type
    OrphanImpl,
    /// two impls of the same (trait, type)
    DuplicateImpl,
    /// reference to an item the imported package does not have
    UnknownItem,
    /// impl of a foreign trait for a foreign *generic* type instantiated at a local type
    OrphanImplGenericArg,
    /// a file of a multi-file package uses a package that only its sibling files import
    /// (0 = two-segment call, 1 = three-segment inherent path, 2 = three-segment trait path,
    /// 3 = struct literal, 4 = struct pattern, 5 = enum variant pattern, 6 = enum constructor,
    /// 7 = trait bound of a generic function)
    NotImportedInThisFile(u8),
    /// impl of a foreign trait for a builtin type (0 Vec[int32], 1 Ref[int32], 2 int32, 3 string,
    /// 4 tuple, 5 array, 6 function type, 10 Vec[foreign struct], 11 unit), or an inherent impl
    /// for a type that is not the package's own (7 Vec[int32], 8 int32, 9 foreign struct)
    OrphanImplBuiltin(u8),
    /// P calls `T::ZzT::zz(v)` on a value of type Q::ZzS (obtained through R): the trait's
    /// package T is imported by P, the impl lives in Q, which P does not import
    ImplFromNonImported,
    /// package Main implements its own trait twice, the second time naming it `Main::ZzT`
    /// (0 = plain then qualified, 1 = both qualified)
    DuplicateImplSpelled(u8),
    /// a library type named like a builtin container (0 = `Vec[T]`, 1 = `Ref[T]`), used with its
    /// package qualifier (legal); the illegal project hands such a value to the builtin function
    BuiltinNamedType(u8),
    /// like NotImportedInThisFile(1|2), and the package also has an own item (a struct) with the
    /// very name of the package that the file fails to import
    NotImportedInThisFileShadowed(u8),
    /// the same impl twice where trait or type belongs to another package (0 = foreign trait for
    /// an own type, both in one file; 1 = the same in two files; 2 = own trait for a foreign type)
    DuplicateImplForeign(u8),
    /// a package directory whose files all declare another package name, inside an import cycle
    /// through the *directory* name (0 = it imports its own directory name, 1 = a package it
    /// reaches imports it back)
    MisnamedInCycle(u8),
}

#[derive(Clone, Copy, Debug, PartialEq, serde::Serialize, serde::Deserialize)]
pub enum Via {
    SignatureType,
    LetAnnotation,
    ClosureParam,
    GenericBound,
    TraitPath,
    InherentPath,
    StructLiteral,
    /// `v.zz()` on a value of a transitive package's type: uses that package's trait impl
    /// without naming (or importing) the package
    MethodSyntax,
    /// enum constructor of the transitive package in a pattern
    EnumPattern,
    /// struct pattern naming the transitive package's struct
    StructPattern,
}

pub const ILLEGAL_KINDS: [Illegal; 60] = [
    Illegal::NotImported,
    Illegal::NotImportedVia(Via::SignatureType),
    Illegal::NotImportedVia(Via::LetAnnotation),
    Illegal::NotImportedVia(Via::ClosureParam),
    Illegal::NotImportedVia(Via::GenericBound),
    Illegal::NotImportedVia(Via::TraitPath),
    Illegal::NotImportedVia(Via::InherentPath),
    Illegal::NotImportedVia(Via::StructLiteral),
    Illegal::NotImportedVia(Via::MethodSyntax),
    Illegal::NotImportedVia(Via::EnumPattern),
    Illegal::NotImportedVia(Via::StructPattern),
    Illegal::MissingPackage,
    Illegal::MisnamedPackage,
    Illegal::Cycle,
    Illegal::SelfImport,
    Illegal::CycleViaMain,
    Illegal::OrphanImpl,
    Illegal::DuplicateImpl,
    Illegal::UnknownItem,
    Illegal::OrphanImplGenericArg,
    Illegal::NotImportedInThisFile(0),
    Illegal::NotImportedInThisFile(1),
    Illegal::NotImportedInThisFile(2),
    Illegal::NotImportedInThisFile(3),
    Illegal::NotImportedInThisFile(4),
    Illegal::NotImportedInThisFile(5),
    Illegal::NotImportedInThisFile(6),
    Illegal::OrphanImplBuiltin(0),
    Illegal::OrphanImplBuiltin(1),
    Illegal::OrphanImplBuiltin(2),
    Illegal::OrphanImplBuiltin(3),
    Illegal::OrphanImplBuiltin(4),
    Illegal::OrphanImplBuiltin(5),
    Illegal::OrphanImplBuiltin(6),
    Illegal::OrphanImplBuiltin(7),
    Illegal::OrphanImplBuiltin(8),
    Illegal::OrphanImplBuiltin(9),
    Illegal::OrphanImplBuiltin(10),
    Illegal::OrphanImplBuiltin(11),
    Illegal::MisnamedInCycle(0),
    Illegal::MisnamedInCycle(1),
    Illegal::DuplicateImplForeign(0),
    Illegal::DuplicateImplForeign(1),
    Illegal::DuplicateImplForeign(2),
    Illegal::NotImportedInThisFileShadowed(1),
    Illegal::NotImportedInThisFileShadowed(2),
    Illegal::DuplicateImplSpelled(0),
    Illegal::DuplicateImplSpelled(1),
    Illegal::BuiltinNamedType(0),
    Illegal::BuiltinNamedType(1),
    Illegal::NotImportedInThisFile(7),
    Illegal::ImplFromNonImported,
    Illegal::NotImportedInThisFile(8),
    Illegal::NotImportedInThisFile(9),
    Illegal::NotImportedInThisFile(10),
    Illegal::NotImportedInThisFile(11),
    Illegal::NotImportedInThisFile(12),
    Illegal::NotImportedInThisFile(13),
    Illegal::NotImportedInThisFile(14),
    Illegal::NotImportedInThisFile(15),
];

fn reaches(proj: &Project, from: usize, to: usize) -> bool {
    if from == to {
        return true;
    }
    proj.pkgs[from].imports.iter().any(|&i| reaches(proj, i, to))
}

/// Build (legal twin, illegal project) from a legal project: the twin contains the helper items
/// the illegality needs, the illegal one adds exactly one illegality. None if this project has
/// no place for that kind.
pub fn inject(proj: &Project, kind: &Illegal, p: &mut Prng) -> Option<(Files, Files, String)> {
    let n = proj.pkgs.len();
    let mut twin = proj.clone();
    let desc;
    let mut bad;
    match kind {
        Illegal::NotImported => {
            // P does not import Q, Q != P, Q is a library
            let mut cands = Vec::new();
            for pi in 0..n {
                for qi in 1..n {
                    if qi != pi && !proj.pkgs[pi].imports.contains(&qi) {
                        cands.push((pi, qi));
                    }
                }
            }
            if cands.is_empty() {
                return None;
            }
            let (pi, qi) = *p.pick(&cands);
            twin.pkgs[qi].raw.push_str("\nfn zz_pub() -> int32 {\n    7\n}\n");
            bad = twin.clone();
            bad.pkgs[pi].raw_last.push_str(&format!("\nfn zz_bad() -> int32 {{\n    {}::zz_pub()\n}}\n", proj.pkgs[qi].name));
            desc = format!("{} uses {}::zz_pub without importing {}", proj.pkgs[pi].name, proj.pkgs[qi].name, proj.pkgs[qi].name);
        }
        Illegal::NotImportedVia(via) => {
            // chain P -> R -> Q with Q not imported by P (Q is loaded before P)
            let mut chains = Vec::new();
            for pi in 0..n {
                for &ri in &proj.pkgs[pi].imports {
                    for &qi in &proj.pkgs[ri].imports {
                        if qi != pi && !proj.pkgs[pi].imports.contains(&qi) {
                            chains.push((pi, ri, qi));
                        }
                    }
                }
            }
            if chains.is_empty() {
                return None;
            }
            let (pi, ri, qi) = *p.pick(&chains);
            let (pn, rn, qn) = (proj.pkgs[pi].name.clone(), proj.pkgs[ri].name.clone(), proj.pkgs[qi].name.clone());
            // legal helpers: Q exports a struct, a trait and an inherent method; R (which imports
            // Q) exports a constructor returning Q's struct and a struct implementing Q's trait
            twin.pkgs[qi].raw.push_str(
                "\nstruct ZzS {\n    x: int32,\n}\n\nenum ZzE {\n    ZA,\n    ZB(int32),\n}\n\ntrait ZzT {\n    fn zz(Self) -> int32;\n}\n\nimpl ZzT for ZzS {\n    fn zz(self: ZzS) -> int32 {\n        self.x + 1\n    }\n}\n\nimpl ZzS {\n    fn zzm(self: ZzS) -> int32 {\n        self.x\n    }\n}\n",
            );
            twin.pkgs[ri].raw.push_str(&format!(
                "\nstruct ZzR {{\n    x: int32,\n}}\n\nimpl {qn}::ZzT for ZzR {{\n    fn zz(self: ZzR) -> int32 {{\n        self.x\n    }}\n}}\n\nfn zz_make() -> {qn}::ZzS {{\n    {qn}::ZzS {{ x: 5 }}\n}}\n\nfn zz_make_e() -> {qn}::ZzE {{\n    {qn}::ZzE::ZB(4)\n}}\n"
            ));
            // P legally holds a value of the transitive type without naming it
            twin.pkgs[pi].raw_last.push_str(&format!(
                "\nfn zz_ok() -> int32 {{\n    let v = {rn}::zz_make();\n    match {rn}::zz_make_e() {{\n        _ => 1,\n    }}\n}}\n"
            ));
            bad = twin.clone();
            let item = match via {
                Via::SignatureType => format!("fn zz_bad(a: {qn}::ZzS) -> int32 {{\n    1\n}}\n"),
                Via::LetAnnotation => format!("fn zz_bad() -> int32 {{\n    let v: {qn}::ZzS = {rn}::zz_make();\n    1\n}}\n"),
                Via::ClosureParam => format!("fn zz_bad() -> int32 {{\n    let g = |s: {qn}::ZzS| 1;\n    g({rn}::zz_make())\n}}\n"),
                Via::GenericBound => format!("fn zz_bad[T: {qn}::ZzT](x: T) -> int32 {{\n    1\n}}\n"),
                Via::TraitPath => format!("fn zz_bad() -> int32 {{\n    {qn}::ZzT::zz({rn}::ZzR {{ x: 2 }})\n}}\n"),
                Via::InherentPath => format!("fn zz_bad() -> int32 {{\n    {qn}::ZzS::zzm({rn}::zz_make())\n}}\n"),
                Via::StructLiteral => format!("fn zz_bad() -> int32 {{\n    let v = {qn}::ZzS {{ x: 3 }};\n    1\n}}\n"),
                Via::EnumPattern => format!("fn zz_bad() -> int32 {{\n    match {rn}::zz_make_e() {{\n        {qn}::ZzE::ZA => 1,\n        _ => 0,\n    }}\n}}\n"),
                Via::StructPattern => format!("fn zz_bad() -> int32 {{\n    let {qn}::ZzS {{ x: px }} = {rn}::zz_make();\n    px\n}}\n"),
                Via::MethodSyntax => format!("fn zz_bad() -> int32 {{\n    let v = {rn}::zz_make();\n    v.zz()\n}}\n"),
            };
            bad.pkgs[pi].raw_last.push_str(&format!("\n{item}"));
            desc = format!("{pn} names {qn}::… ({via:?}) although it imports only {rn}, which imports {qn}");
        }
        Illegal::MissingPackage => {
            let pi = p.usize(n);
            bad = twin.clone();
            bad.pkgs[pi].extra_imports.push("Zmissing".to_string());
            desc = format!("{} imports Zmissing which has no directory", proj.pkgs[pi].name);
        }
        Illegal::MisnamedPackage => {
            if n < 2 {
                return None;
            }
            let pi = 1 + p.usize(n - 1);
            let t = twin.render();
            let mut b = t.clone();
            let files = proj.pkg_files(pi);
            let f = p.pick(&files).clone();
            let text = String::from_utf8_lossy(&b[&f]).to_string();
            let other = if p.chance(1, 2) && n > 2 {
                let mut o = 1 + p.usize(n - 1);
                if o == pi {
                    o = if pi + 1 < n { pi + 1 } else { 1 };
                }
                proj.pkgs[o].name.clone()
            } else {
                "Zother".to_string()
            };
            if other == proj.pkgs[pi].name {
                return None;
            }
            let newtext = text.replacen(&format!("package {}", proj.pkgs[pi].name), &format!("package {other}"), 1);
            b.insert(f.clone(), newtext.into_bytes());
            return Some((t, b, format!("file {f} in directory {} declares package {other}", proj.pkgs[pi].name)));
        }
        Illegal::Cycle => {
            let mut cands = Vec::new();
            for pi in 1..n {
                for qi in 1..n {
                    if pi != qi && reaches(proj, pi, qi) {
                        cands.push((pi, qi));
                    }
                }
            }
            if cands.is_empty() {
                return None;
            }
            let (pi, qi) = *p.pick(&cands);
            bad = twin.clone();
            bad.pkgs[qi].extra_imports.push(proj.pkgs[pi].name.clone());
            desc = format!("{} imports {} which (transitively) imports it", proj.pkgs[qi].name, proj.pkgs[pi].name);
        }
        Illegal::SelfImport => {
            if n < 2 {
                return None;
            }
            let pi = 1 + p.usize(n - 1);
            bad = twin.clone();
            bad.pkgs[pi].extra_imports.push(proj.pkgs[pi].name.clone());
            desc = format!("{} imports itself", proj.pkgs[pi].name);
        }
        Illegal::CycleViaMain => {
            if n < 2 {
                return None;
            }
            let pi = 1 + p.usize(n - 1);
            bad = twin.clone();
            bad.pkgs[pi].extra_imports.push("Main".to_string());
            desc = format!("{} imports Main", proj.pkgs[pi].name);
        }
        Illegal::OrphanImpl => {
            let mut cands = Vec::new();
            for pi in 0..n {
                let im = &proj.pkgs[pi].imports;
                if !im.is_empty() {
                    cands.push(pi);
                }
            }
            if cands.is_empty() {
                return None;
            }
            let pi = *p.pick(&cands);
            let qi = *p.pick(&proj.pkgs[pi].imports);
            let ri = *p.pick(&proj.pkgs[pi].imports);
            twin.pkgs[qi].raw.push_str("\ntrait ZzT {\n    fn zz(Self) -> int32;\n}\n");
            twin.pkgs[ri].raw.push_str("\nstruct ZzS {\n    x: int32,\n}\n");
            bad = twin.clone();
            let q = &proj.pkgs[qi].name;
            let r = &proj.pkgs[ri].name;
            bad.pkgs[pi].raw_last.push_str(&format!(
                "\nimpl {q}::ZzT for {r}::ZzS {{\n    fn zz(self: {r}::ZzS) -> int32 {{\n        1\n    }}\n}}\n"
            ));
            desc = format!("{} implements foreign trait {q}::ZzT for foreign type {r}::ZzS", proj.pkgs[pi].name);
        }
        Illegal::DuplicateImpl => {
            let pi = p.usize(n);
            twin.pkgs[pi].raw.push_str(
                "\ntrait ZzT {\n    fn zz(Self) -> int32;\n}\n\nstruct ZzS {\n    x: int32,\n}\n\nimpl ZzT for ZzS {\n    fn zz(self: ZzS) -> int32 {\n        1\n    }\n}\n",
            );
            bad = twin.clone();
            bad.pkgs[pi].raw_last.push_str("\nimpl ZzT for ZzS {\n    fn zz(self: ZzS) -> int32 {\n        2\n    }\n}\n");
            desc = format!("{} implements ZzT for ZzS twice", proj.pkgs[pi].name);
        }
        Illegal::OrphanImplGenericArg => {
            let mut cands = Vec::new();
            for pi in 0..n {
                if !proj.pkgs[pi].imports.is_empty() {
                    cands.push(pi);
                }
            }
            if cands.is_empty() {
                return None;
            }
            let pi = *p.pick(&cands);
            let qi = *p.pick(&proj.pkgs[pi].imports);
            let ri = *p.pick(&proj.pkgs[pi].imports);
            twin.pkgs[qi].raw.push_str("\ntrait ZzT {\n    fn zz(Self) -> int32;\n}\n");
            twin.pkgs[ri].raw.push_str("\nstruct ZzG[T] {\n    v: T,\n}\n");
            twin.pkgs[pi].raw.push_str("\nstruct ZzL {\n    x: int32,\n}\n");
            bad = twin.clone();
            let q = &proj.pkgs[qi].name;
            let r = &proj.pkgs[ri].name;
            bad.pkgs[pi].raw_last.push_str(&format!(
                "\nimpl {q}::ZzT for {r}::ZzG[ZzL] {{\n    fn zz(self: {r}::ZzG[ZzL]) -> int32 {{\n        1\n    }}\n}}\n"
            ));
            desc = format!("{} implements foreign trait {q}::ZzT for foreign generic type {r}::ZzG instantiated at its own type ZzL", proj.pkgs[pi].name);
        }
        Illegal::ImplFromNonImported => {
            // chain P -> R -> Q with Q not imported by P, and a package T behind Q for the trait
            let mut chains = Vec::new();
            for pi in 0..n {
                for &ri in &proj.pkgs[pi].imports {
                    for &qi in &proj.pkgs[ri].imports {
                        if qi != pi && !proj.pkgs[pi].imports.contains(&qi) && qi + 1 < n {
                            chains.push((pi, ri, qi));
                        }
                    }
                }
            }
            if chains.is_empty() {
                return None;
            }
            let (pi, ri, qi) = *p.pick(&chains);
            let ti = n - 1;
            if ti == pi || ti == ri || ti == qi {
                return None;
            }
            for x in [pi, qi] {
                if !twin.pkgs[x].imports.contains(&ti) {
                    twin.pkgs[x].imports.push(ti);
                }
            }
            let (rn, qn, tn) = (proj.pkgs[ri].name.clone(), proj.pkgs[qi].name.clone(), proj.pkgs[ti].name.clone());
            twin.pkgs[ti].raw.push_str("\ntrait ZzT {\n    fn zz(Self) -> int32;\n}\n");
            twin.pkgs[qi].raw.push_str(&format!(
                "\nstruct ZzS {{\n    x: int32,\n}}\n\nimpl {tn}::ZzT for ZzS {{\n    fn zz(self: ZzS) -> int32 {{\n        self.x\n    }}\n}}\n"
            ));
            twin.pkgs[ri].raw.push_str(&format!("\nfn zz_make() -> {qn}::ZzS {{\n    {qn}::ZzS {{ x: 5 }}\n}}\n"));
            twin.pkgs[pi].raw_last.push_str(&format!("\nfn zz_ok() -> int32 {{\n    let v = {rn}::zz_make();\n    1\n}}\n"));
            bad = twin.clone();
            bad.pkgs[pi].raw_last.push_str(&format!("\nfn zz_bad() -> int32 {{\n    {tn}::ZzT::zz({rn}::zz_make())\n}}\n"));
            desc = format!("{} calls {tn}::ZzT::zz on a value of {qn}::ZzS: the impl lives in {qn}, which it does not import", proj.pkgs[pi].name);
        }
        Illegal::DuplicateImplSpelled(form) => {
            twin.pkgs[0].raw.push_str("\ntrait ZzT {\n    fn zz(Self) -> int32;\n}\n\nstruct ZzS {\n    x: int32,\n}\n");
            let one = |spelled: &str, k: u32| format!("\nimpl {spelled} for ZzS {{\n    fn zz(self: ZzS) -> int32 {{\n        {k}\n    }}\n}}\n");
            bad = twin.clone();
            // the legal twin has one impl, spelled with the package qualifier
            twin.pkgs[0].raw_last.push_str(&one("Main::ZzT", 1));
            bad.pkgs[0].raw_last.push_str(&one(if form % 2 == 0 { "ZzT" } else { "Main::ZzT" }, 1));
            bad.pkgs[0].raw_last.push_str(&one("Main::ZzT", 2));
            desc = format!("Main implements its trait ZzT for ZzS twice, the second time spelled Main::ZzT (form {form})");
        }
        Illegal::BuiltinNamedType(form) => {
            let mut cands = Vec::new();
            for pi in 0..n {
                if !proj.pkgs[pi].imports.is_empty() {
                    cands.push(pi);
                }
            }
            if cands.is_empty() {
                return None;
            }
            let pi = *p.pick(&cands);
            let qi = *p.pick(&proj.pkgs[pi].imports);
            let q = proj.pkgs[qi].name.clone();
            let (ty, builtin_fn) = if form % 2 == 0 { ("Vec", "vec_len") } else { ("Ref", "ref_get") };
            twin.pkgs[qi].raw.push_str(&format!(
                "\nstruct {ty}[T] {{\n    zzv: T,\n}}\n\nfn zz_mkv() -> {q}::{ty}[int32] {{\n    {q}::{ty} {{ zzv: 1 }}\n}}\n"
            ));
            twin.pkgs[pi].raw_last.push_str(&format!(
                "\nfn zz_usev() -> int32 {{\n    let x: {q}::{ty}[int32] = {q}::zz_mkv();\n    x.zzv\n}}\n"
            ));
            bad = twin.clone();
            bad.pkgs[pi].raw_last.push_str(&format!("\nfn zz_bad() -> int32 {{\n    let y = {builtin_fn}({q}::zz_mkv());\n    1\n}}\n"));
            desc = format!("{} hands a value of the library type {q}::{ty}[int32] to the builtin {builtin_fn}", proj.pkgs[pi].name);
        }
        Illegal::NotImportedInThisFileShadowed(form) => {
            let (t, b, d) = inject(proj, &Illegal::NotImportedInThisFile(*form), p)?;
            // which package fails to be imported, and by whom? recover it from the description
            let pi = (0..n).find(|pi| d.contains(&format!("the last file of {} uses", proj.pkgs[*pi].name)))?;
            let qn = proj.pkgs[pi].imports.iter().map(|q| proj.pkgs[*q].name.clone()).find(|qn| d.contains(&format!("uses {qn} (form")))?;
            let first = proj.pkg_files(pi).first()?.clone();
            let add = format!("\nstruct {qn} {{\n    zzx: int32,\n}}\n");
            let mut t2 = t.clone();
            let mut b2 = b.clone();
            for fs in [&mut t2, &mut b2] {
                let mut text = String::from_utf8_lossy(fs.get(&first)?).to_string();
                text.push_str(&add);
                fs.insert(first.clone(), text.into_bytes());
            }
            return Some((t2, b2, format!("{d}; the package also defines a struct named {qn}")));
        }
        Illegal::NotImportedInThisFile(form) => {
            let mut cands = Vec::new();
            for pi in 0..n {
                if proj.pkgs[pi].nfiles >= 2 {
                    for &qi in &proj.pkgs[pi].imports {
                        cands.push((pi, qi));
                    }
                }
            }
            if cands.is_empty() {
                return None;
            }
            let (pi, qi) = *p.pick(&cands);
            let qn = proj.pkgs[qi].name.clone();
            twin.pkgs[qi].raw.push_str(
                "\nstruct ZzS {\n    x: int32,\n}\n\ntrait ZzT {\n    fn zz(Self) -> int32;\n}\n\nimpl ZzT for ZzS {\n    fn zz(self: ZzS) -> int32 {\n        self.x\n    }\n}\n\nimpl ZzS {\n    fn zzn() -> int32 {\n        3\n    }\n}\n\nfn zz_pub() -> int32 {\n    7\n}\n\nfn zz_mk() -> ZzS {\n    ZzS { x: 1 }\n}\n\nenum ZzE {\n    ZA,\n    ZB(int32),\n}\n\nfn zz_mk_e() -> ZzE {\n    ZzE::ZB(4)\n}\n",
            );
            // a sibling file (which does import the package) hands out values of its types
            twin.pkgs[pi].raw.push_str(&format!(
                "\nfn zz_loc() -> {qn}::ZzS {{\n    {qn}::zz_mk()\n}}\n\nfn zz_loc_e() -> {qn}::ZzE {{\n    {qn}::zz_mk_e()\n}}\n"
            ));
            let item = match form % 16 {
                7 => format!("fn zz_use[X: {qn}::ZzT](x: X) -> int32 {{\n    1\n}}\n"),
                // type positions
                8 => format!("fn zz_use(d: dyn {qn}::ZzT) -> int32 {{\n    1\n}}\n"),
                9 => format!("fn zz_use(v: {qn}::ZzS) -> int32 {{\n    1\n}}\n"),
                10 => format!("fn zz_use() -> {qn}::ZzS {{\n    zz_loc()\n}}\n"),
                11 => format!("struct ZzLocal {{\n    f: {qn}::ZzS,\n}}\n"),
                12 => format!("fn zz_use() -> int32 {{\n    let v: Vec[{qn}::ZzS] = vec_new();\n    1\n}}\n"),
                13 => format!("fn zz_use() -> int32 {{\n    let f = |a: {qn}::ZzS| 1;\n    1\n}}\n"),
                14 => format!("enum ZzLocalE {{\n    A({qn}::ZzE),\n    B,\n}}\n"),
                15 => format!("fn zz_use(r: Ref[{qn}::ZzS], t: ({qn}::ZzE, int32)) -> int32 {{\n    1\n}}\n"),
                0 => format!("fn zz_use() -> int32 {{\n    {qn}::zz_pub()\n}}\n"),
                1 => format!("fn zz_use() -> int32 {{\n    {qn}::ZzS::zzn()\n}}\n"),
                2 => format!("fn zz_use() -> int32 {{\n    {qn}::ZzT::zz({qn}::zz_mk())\n}}\n"),
                3 => format!("fn zz_use() -> int32 {{\n    let v = {qn}::ZzS {{ x: 3 }};\n    1\n}}\n"),
                4 => format!("fn zz_use() -> int32 {{\n    let {qn}::ZzS {{ x: px }} = zz_loc();\n    px\n}}\n"),
                5 => format!("fn zz_use() -> int32 {{\n    match zz_loc_e() {{\n        {qn}::ZzE::ZA => 1,\n        _ => 0,\n    }}\n}}\n"),
                _ => format!("fn zz_use() -> int32 {{\n    let e = {qn}::ZzE::ZB(2);\n    1\n}}\n"),
            };
            twin.pkgs[pi].raw_last.push_str(&format!("\n{item}"));
            bad = twin.clone();
            bad.pkgs[pi].omit_import_last = Some(qi);
            desc = format!("the last file of {} uses {qn} (form {form}) but only its sibling files import {qn}", proj.pkgs[pi].name);
        }
        Illegal::OrphanImplBuiltin(form) => {
            let mut cands = Vec::new();
            for pi in 0..n {
                if !proj.pkgs[pi].imports.is_empty() {
                    cands.push(pi);
                }
            }
            if cands.is_empty() {
                return None;
            }
            let pi = *p.pick(&cands);
            let qi = *p.pick(&proj.pkgs[pi].imports);
            twin.pkgs[qi].raw.push_str("\ntrait ZzT {\n    fn zz(Self) -> int32;\n}\n\nstruct ZzS {\n    x: int32,\n}\n");
            bad = twin.clone();
            let q = &proj.pkgs[qi].name;
            let (ty, inherent) = match form % 12 {
                0 => ("Vec[int32]".to_string(), false),
                1 => ("Ref[int32]".to_string(), false),
                2 => ("int32".to_string(), false),
                3 => ("string".to_string(), false),
                4 => ("(int32, int32)".to_string(), false),
                5 => ("[int32; 2]".to_string(), false),
                6 => ("(int32) -> int32".to_string(), false),
                7 => ("Vec[int32]".to_string(), true),
                8 => ("int32".to_string(), true),
                9 => (format!("{q}::ZzS"), true),
                10 => (format!("Vec[{q}::ZzS]"), false),
                _ => ("unit".to_string(), false),
            };
            if inherent {
                bad.pkgs[pi].raw_last.push_str(&format!("\nimpl {ty} {{\n    fn zzq(self: {ty}) -> int32 {{\n        1\n    }}\n}}\n"));
                desc = format!("{} gives inherent methods to {ty}, which is not its own type", proj.pkgs[pi].name);
            } else {
                bad.pkgs[pi].raw_last.push_str(&format!("\nimpl {q}::ZzT for {ty} {{\n    fn zz(self: {ty}) -> int32 {{\n        1\n    }}\n}}\n"));
                desc = format!("{} implements foreign trait {q}::ZzT for {ty}", proj.pkgs[pi].name);
            }
        }
        Illegal::DuplicateImplForeign(form) => {
            let mut cands = Vec::new();
            for pi in 0..n {
                if !proj.pkgs[pi].imports.is_empty() {
                    cands.push(pi);
                }
            }
            if cands.is_empty() {
                return None;
            }
            let pi = *p.pick(&cands);
            let qi = *p.pick(&proj.pkgs[pi].imports);
            let q = proj.pkgs[qi].name.clone();
            twin.pkgs[qi].raw.push_str("\ntrait ZzT {\n    fn zz(Self) -> int32;\n}\n\nstruct ZzS {\n    x: int32,\n}\n");
            let (tr, ty) = if form % 3 == 2 {
                twin.pkgs[pi].raw.push_str("\ntrait ZzU {\n    fn zu(Self) -> int32;\n}\n");
                ("ZzU".to_string(), format!("{q}::ZzS"))
            } else {
                twin.pkgs[pi].raw.push_str("\nstruct ZzL {\n    x: int32,\n}\n");
                (format!("{q}::ZzT"), "ZzL".to_string())
            };
            let m = if form % 3 == 2 { "zu" } else { "zz" };
            let one = |k: u32| format!("\nimpl {tr} for {ty} {{\n    fn {m}(self: {ty}) -> int32 {{\n        {k}\n    }}\n}}\n");
            twin.pkgs[pi].raw_last.push_str(&one(1));
            bad = twin.clone();
            if form % 3 == 1 {
                bad.pkgs[pi].raw.push_str(&one(2));
            } else {
                bad.pkgs[pi].raw_last.push_str(&one(2));
            }
            desc = format!("{} implements {tr} for {ty} twice (form {form})", proj.pkgs[pi].name);
        }
        Illegal::MisnamedInCycle(form) => {
            if n < 2 {
                return None;
            }
            let (pi, back) = if form % 2 == 0 {
                let pi = 1 + p.usize(n - 1);
                (pi, pi)
            } else {
                let mut cands = Vec::new();
                for pi in 1..n {
                    for qi in 1..n {
                        if pi != qi && reaches(proj, pi, qi) {
                            cands.push((pi, qi));
                        }
                    }
                }
                if cands.is_empty() {
                    return None;
                }
                *p.pick(&cands)
            };
            let t = twin.render();
            bad = twin.clone();
            bad.pkgs[back].extra_imports.push(proj.pkgs[pi].name.clone());
            let mut b = bad.render();
            let wrong = if p.chance(1, 2) { proj.pkgs[pi].name.to_lowercase() } else { format!("Zz{}", proj.pkgs[pi].name) };
            for f in proj.pkg_files(pi) {
                if let Some(bytes) = b.get(&f) {
                    let text = String::from_utf8_lossy(bytes).to_string();
                    let newtext = text.replacen(&format!("package {}", proj.pkgs[pi].name), &format!("package {wrong}"), 1);
                    b.insert(f.clone(), newtext.into_bytes());
                }
            }
            return Some((t, b, format!("directory {} declares package {wrong} and {} imports {} (a cycle through the directory name)", proj.pkgs[pi].name, proj.pkgs[back].name, proj.pkgs[pi].name)));
        }
        Illegal::UnknownItem => {
            let mut cands = Vec::new();
            for pi in 0..n {
                if !proj.pkgs[pi].imports.is_empty() {
                    cands.push(pi);
                }
            }
            if cands.is_empty() {
                return None;
            }
            let pi = *p.pick(&cands);
            let qi = *p.pick(&proj.pkgs[pi].imports);
            bad = twin.clone();
            bad.pkgs[pi].raw_last.push_str(&format!("\nfn zz_bad() -> int32 {{\n    {}::zz_nope()\n}}\n", proj.pkgs[qi].name));
            desc = format!("{} uses {}::zz_nope which does not exist", proj.pkgs[pi].name, proj.pkgs[qi].name);
        }
    }
    Some((twin.render(), bad.render(), desc))
}

/// Layouts that are merely odd (C04 only asks that the compiler ends with a result or a
/// diagnostic): the same name defined twice in one package, in one file or across two files, as
/// the same or as another kind of item, with a use of the name so that later stages see it.
pub const ODD_LAYOUTS: u8 = 8;

pub fn odd_layout(proj: &Project, form: u8, p: &mut Prng) -> (Files, String) {
    let mut bad = proj.clone();
    let pi = p.usize(proj.pkgs.len());
    let (a, b, usage) = match form % ODD_LAYOUTS {
        0 => ("struct ZzD {\n    x: int32,\n}\n", "struct ZzD {\n    y: int32,\n}\n", "fn zz_use() -> int32 {\n    let s = ZzD { x: 1 };\n    s.x\n}\n"),
        1 => ("struct ZzD {\n    x: int32,\n}\n", "enum ZzD {\n    A,\n    B(int32),\n}\n", "fn zz_use() -> int32 {\n    let s = ZzD { x: 1 };\n    s.x\n}\n"),
        2 => ("struct ZzD[T] {\n    v: T,\n}\n", "enum ZzD[T] {\n    A(T),\n    B,\n}\n", "fn zz_use() -> int32 {\n    let s = ZzD { v: 1 };\n    s.v\n}\n"),
        3 => ("struct ZzD[T] {\n    v: T,\n}\n", "enum ZzD[T, U] {\n    A(T),\n    B(U),\n}\n", "fn zz_use() -> int32 {\n    let s = ZzD { v: 1 };\n    s.v\n}\n"),
        4 => ("fn zzf() -> int32 {\n    1\n}\n", "fn zzf(a: int32) -> string {\n    \"x\"\n}\n", "fn zz_use() -> int32 {\n    zzf()\n}\n"),
        5 => ("trait ZzT {\n    fn zz(Self) -> int32;\n}\n", "trait ZzT {\n    fn zq(Self) -> string;\n}\n", "struct ZzL {\n    x: int32,\n}\n\nimpl ZzT for ZzL {\n    fn zz(self: ZzL) -> int32 {\n        1\n    }\n}\n"),
        6 => ("enum ZzD {\n    A,\n}\n", "enum ZzD {\n    A,\n    B(int32),\n}\n", "fn zz_use() -> int32 {\n    match ZzD::A {\n        ZzD::A => 1,\n        _ => 0,\n    }\n}\n"),
        _ => ("enum ZzD[T] {\n    A(T),\n    B,\n}\n", "struct ZzD[T] {\n    v: T,\n}\n", "fn zz_use() -> int32 {\n    match ZzD::A(1) {\n        ZzD::A(k) => k,\n        _ => 0,\n    }\n}\n"),
    };
    let swap = p.chance(1, 2);
    let (first, second) = if swap { (b, a) } else { (a, b) };
    bad.pkgs[pi].raw.push_str(&format!("\n{first}"));
    if p.chance(1, 2) {
        bad.pkgs[pi].raw.push_str(&format!("\n{second}"));
    } else {
        bad.pkgs[pi].raw_last.push_str(&format!("\n{second}"));
    }
    bad.pkgs[pi].raw_last.push_str(&format!("\n{usage}"));
    (bad.render(), format!("{} defines one name twice (odd layout {form})", proj.pkgs[pi].name))
}
