//! Abstract multi-package projects: generation, rendering to .gom files, evaluation (the
//! generator predicts stdout), and edit operations (body-only / interface-changing).
//!
//! Everything is a pure function of the Prng handed in.

use crate::prng::Prng;
use crate::world::Files;
use std::collections::BTreeMap;

#[derive(Clone, Debug, PartialEq, Eq, Hash)]
pub enum Ty {
    Int,
    Str,
    Struct(usize, usize),
    Enum(usize, usize),
    /// closure type (int32) -> int32
    Fun,
    /// generic struct instantiated at int32: G[int32] (package, index into generics)
    Gen(usize, usize),
}

#[derive(Clone, Debug)]
pub struct StructDef {
    pub name: String,
    pub fields: Vec<String>, // all int32
    pub derive_tostring: bool,
}

#[derive(Clone, Debug)]
pub struct EnumDef {
    pub name: String,
    pub variants: Vec<(String, usize)>, // name, number of int32 payloads
}

#[derive(Clone, Debug)]
pub struct TraitDef {
    pub name: String,
    pub methods: Vec<(String, Ty)>, // method(Self) -> Int | Str
}

#[derive(Clone, Debug)]
pub struct ImplDef {
    pub tr: (usize, usize),
    pub st: (usize, usize),
    pub bodies: Vec<Expr>, // one per trait method; `self` in scope
}

#[derive(Clone, Debug)]
pub struct InherentDef {
    pub st: usize, // struct of this package
    pub name: String,
    pub body: Expr, // returns Int; `self` in scope
}

#[derive(Clone, Debug)]
pub struct FnDef {
    pub name: String,
    pub params: Vec<(String, Ty)>,
    pub ret: Ty,
    pub body: Expr,
    /// generic, trait-bounded: fn name[T: Tr](x: T) -> int32 { Tr::m(x) + k }
    pub bound: Option<(usize, usize)>,
    /// number of leading `let` noise statements (body-only variation)
    pub noise: u32,
}

#[derive(Clone, Debug)]
pub enum Expr {
    Lit(i32),
    StrLit(String),
    Var(String),
    Add(Box<Expr>, Box<Expr>),
    Sub(Box<Expr>, Box<Expr>),
    Mul(Box<Expr>, Box<Expr>),
    Concat(Box<Expr>, Box<Expr>),
    IntToStr(Box<Expr>),
    Field(Box<Expr>, String, (usize, usize)),
    Call(usize, usize, Vec<Expr>),
    MkStruct(usize, usize, Vec<Expr>),
    MkEnum(usize, usize, usize, Vec<Expr>),
    Match(Box<Expr>, (usize, usize), Vec<Expr>, u32), // one arm per variant; binders v<tag>_<k>
    If(Box<Expr>, Box<Expr>, Box<Expr>, Box<Expr>), // if a < b { c } else { d }
    TraitCall((usize, usize), usize, Box<Expr>, bool), // trait, method idx, receiver, method-syntax?
    Inherent(usize, usize, Box<Expr>),               // pkg, inherent idx, receiver
    BoundVar,                                        // Tr::m(x) inside a bounded generic fn (method 0)
    ToString(Box<Expr>),                             // derived to_string
    /// closure literal |q: int32| q + <body>  (body may use the enclosing variables)
    MkClosure(Box<Expr>),
    /// application of a closure-typed expression to an int32 argument
    Apply(Box<Expr>, Box<Expr>),
    /// { let fz<tag> = <closure expr>; fz<tag>(<arg>) }
    LetApply(Box<Expr>, Box<Expr>, u32),
    /// generic struct literal G { v: e } at T = int32
    MkGen(usize, usize, Box<Expr>),
    /// field v of a generic struct value
    GenField(Box<Expr>),
    /// <pkg>::zz_nap(e): a library function built on `extern "go"` declarations (sleeps e ns on
    /// the simulated clock, returns e) — extern funcs/types must survive the artifact boundary
    Nap(usize, Box<Expr>),
    /// float64_to_string(<literal>): a float constant that has to survive the JSON round trip
    /// of the Core IR bit for bit
    FloatStr(String),
}

#[derive(Clone, Debug, Default)]
pub struct Pkg {
    pub name: String,
    pub imports: Vec<usize>,
    pub nfiles: usize,
    pub structs: Vec<StructDef>,
    pub enums: Vec<EnumDef>,
    pub traits: Vec<TraitDef>,
    pub impls: Vec<ImplDef>,
    pub inherents: Vec<InherentDef>,
    pub fns: Vec<FnDef>,
    /// generic structs `struct <name>[T] { v: T }`
    pub generics: Vec<String>,
    /// this package declares `extern "go" "time"` items and a helper zz_nap built on them
    pub externs: bool,
    /// extra raw text appended to the first file (used by error/layout variants)
    pub raw: String,
    /// extra raw text appended to the last file
    pub raw_last: String,
    /// extra import lines by name (may name missing packages, the package itself, Main, ...)
    pub extra_imports: Vec<String>,
    /// the last file of the package (if it has >= 2 files) does not declare this import
    pub omit_import_last: Option<usize>,
}

#[derive(Clone, Debug, Default)]
pub struct Project {
    pub pkgs: Vec<Pkg>, // pkgs[0] = Main; imports only go to higher indices (a DAG)
    pub main_prints: Vec<Expr>, // each is Int or Str typed; printed on its own line
    pub main_print_tys: Vec<Ty>,
}

#[derive(Clone, Debug)]
pub struct GenCfg {
    pub max_pkgs: usize,
    pub max_files: usize,
    pub collide_names: bool,
    pub traits: bool,
    pub generics: bool,
    pub derives: bool,
    pub depth: u32,
}

impl GenCfg {
    pub fn swarm(p: &mut Prng) -> GenCfg {
        GenCfg {
            max_pkgs: 1 + p.usize(6),
            max_files: 1 + p.usize(3),
            collide_names: p.chance(1, 4),
            traits: p.chance(3, 4),
            generics: p.chance(1, 2),
            derives: p.chance(1, 3),
            depth: 1 + p.below(3) as u32,
        }
    }
}

// names share prefixes on purpose (Pa / Pab, Main / MainUtil): package identity must be the whole
// name, never a textual prefix
const PKG_NAMES: [&str; 7] = ["Main", "Pa", "Pab", "Pb", "MainUtil", "Pbc", "Pd"];

// ---------------------------------------------------------------------------------------------
// generation
// ---------------------------------------------------------------------------------------------

struct Scope<'a> {
    proj: &'a Project,
    pkg: usize,
    /// functions of the package under construction (not yet in proj)
    local_fns: &'a [FnDef],
    vars: Vec<(String, Ty)>,
}

fn visible_pkgs(proj: &Project, pkg: usize, imports: &[usize]) -> Vec<usize> {
    let mut v = vec![pkg];
    v.extend(imports.iter().copied());
    let _ = proj;
    v
}

fn ty_nameable(t: &Ty, vis: &[usize]) -> bool {
    match t {
        Ty::Int | Ty::Str | Ty::Fun => true,
        Ty::Struct(p, _) | Ty::Enum(p, _) | Ty::Gen(p, _) => vis.contains(p),
    }
}

impl Project {
    pub fn pkg_struct(&self, p: usize, i: usize) -> &StructDef {
        &self.pkgs[p].structs[i]
    }
    pub fn pkg_enum(&self, p: usize, i: usize) -> &EnumDef {
        &self.pkgs[p].enums[i]
    }
}

fn gen_expr(p: &mut Prng, sc: &Scope, cur: &Pkg, want: &Ty, depth: u32) -> Expr {
    let vis = visible_pkgs(sc.proj, sc.pkg, &cur.imports);
    let pkg_of = |i: usize| -> &Pkg { if i == sc.pkg { cur } else { &sc.proj.pkgs[i] } };
    match want {
        Ty::Int => {
            let mut choices: Vec<u32> = vec![0, 0, 1]; // literal, var
            if depth > 0 {
                choices.extend([2, 2, 3, 4, 5, 6, 7, 8, 9, 10, 11]);
            }
            for _ in 0..6 {
                match *p.pick(&choices) {
                    0 => return Expr::Lit(p.range(-9, 40) as i32),
                    1 => {
                        let ints: Vec<&(String, Ty)> =
                            sc.vars.iter().filter(|(_, t)| *t == Ty::Int).collect();
                        if !ints.is_empty() {
                            return Expr::Var(p.pick(&ints).0.clone());
                        }
                    }
                    2 => {
                        let a = Box::new(gen_expr(p, sc, cur, &Ty::Int, depth - 1));
                        let b = Box::new(gen_expr(p, sc, cur, &Ty::Int, depth - 1));
                        return match p.below(3) {
                            0 => Expr::Add(a, b),
                            1 => Expr::Sub(a, b),
                            _ => Expr::Mul(a, b),
                        };
                    }
                    3 => {
                        // field of a struct-typed variable
                        let ss: Vec<&(String, Ty)> = sc
                            .vars
                            .iter()
                            .filter(|(_, t)| matches!(t, Ty::Struct(..)))
                            .collect();
                        if !ss.is_empty() {
                            let (n, t) = *p.pick(&ss);
                            if let Ty::Struct(sp, si) = t {
                                let sd = &pkg_of(*sp).structs[*si];
                                if !sd.fields.is_empty() {
                                    let f = p.pick(&sd.fields).clone();
                                    return Expr::Field(Box::new(Expr::Var(n.clone())), f, (*sp, *si));
                                }
                            }
                        }
                    }
                    4 => {
                        // call a function returning Int
                        if let Some(e) = gen_call(p, sc, cur, &Ty::Int, depth, &vis) {
                            return e;
                        }
                    }
                    5 => {
                        // match on an enum value
                        let mut enums = Vec::new();
                        for &vp in &vis {
                            for (ei, _) in pkg_of(vp).enums.iter().enumerate() {
                                enums.push((vp, ei));
                            }
                        }
                        if !enums.is_empty() {
                            let (ep, ei) = *p.pick(&enums);
                            let scrut = gen_expr(p, sc, cur, &Ty::Enum(ep, ei), depth - 1);
                            let ed = pkg_of(ep).enums[ei].clone();
                            let mut arms = Vec::new();
                            for (_, n) in ed.variants.iter() {
                                let mut vars = sc.vars.clone();
                                for k in 0..*n {
                                    vars.push((format!("v{depth}_{k}"), Ty::Int));
                                }
                                let sc2 = Scope { proj: sc.proj, pkg: sc.pkg, local_fns: sc.local_fns, vars };
                                arms.push(gen_expr(p, &sc2, cur, &Ty::Int, depth - 1));
                            }
                            return Expr::Match(Box::new(scrut), (ep, ei), arms, depth);
                        }
                    }
                    6 => {
                        let a = Box::new(gen_expr(p, sc, cur, &Ty::Int, depth - 1));
                        let b = Box::new(gen_expr(p, sc, cur, &Ty::Int, depth - 1));
                        let c = Box::new(gen_expr(p, sc, cur, &Ty::Int, depth - 1));
                        let d = Box::new(gen_expr(p, sc, cur, &Ty::Int, depth - 1));
                        return Expr::If(a, b, c, d);
                    }
                    7 => {
                        // trait method returning Int on a struct that has an impl visible here
                        if let Some(e) = gen_trait_call(p, sc, cur, &Ty::Int, depth, &vis) {
                            return e;
                        }
                    }
                    8 => {
                        // inherent method
                        let mut cands = Vec::new();
                        for &vp in &vis {
                            for (ii, inh) in pkg_of(vp).inherents.iter().enumerate() {
                                cands.push((vp, ii, inh.st));
                            }
                        }
                        if !cands.is_empty() {
                            let (ip, ii, st) = *p.pick(&cands);
                            let recv = gen_expr(p, sc, cur, &Ty::Struct(ip, st), depth - 1);
                            return Expr::Inherent(ip, ii, Box::new(recv));
                        }
                    }
                    9 => {
                        let naps: Vec<usize> = vis.iter().copied().filter(|vp| pkg_of(*vp).externs).collect();
                        if !naps.is_empty() {
                            let np = *p.pick(&naps);
                            let a = gen_expr(p, sc, cur, &Ty::Int, depth - 1);
                            return Expr::Nap(np, Box::new(a));
                        }
                    }
                    10 => {
                        // apply a closure-typed expression (a call returning a closure, a
                        // closure variable, or a literal)
                        // (goml cannot apply a closure *literal* directly, so the callee is a
                        // closure variable or a call returning a closure)
                        let funs: Vec<&(String, Ty)> = sc.vars.iter().filter(|(_, t)| *t == Ty::Fun).collect();
                        let f = if !funs.is_empty() && p.chance(1, 2) {
                            Some(Expr::Var(p.pick(&funs).0.clone()))
                        } else {
                            gen_call(p, sc, cur, &Ty::Fun, depth, &vis)
                        };
                        if let Some(f) = f {
                            let a = gen_expr(p, sc, cur, &Ty::Int, depth - 1);
                            if p.chance(1, 2) {
                                return Expr::LetApply(Box::new(f), Box::new(a), depth);
                            }
                            return Expr::Apply(Box::new(f), Box::new(a));
                        }
                    }
                    11 => {
                        let mut gens = Vec::new();
                        for &vp in &vis {
                            for gi in 0..pkg_of(vp).generics.len() {
                                gens.push((vp, gi));
                            }
                        }
                        if !gens.is_empty() {
                            let (gp, gi) = *p.pick(&gens);
                            let v = gen_expr(p, sc, cur, &Ty::Gen(gp, gi), depth - 1);
                            return Expr::GenField(Box::new(v));
                        }
                    }
                    _ => {}
                }
            }
            Expr::Lit(p.range(0, 9) as i32)
        }
        Ty::Fun => {
            let same: Vec<&(String, Ty)> = sc.vars.iter().filter(|(_, t)| *t == Ty::Fun).collect();
            if !same.is_empty() && p.chance(1, 3) {
                return Expr::Var(p.pick(&same).0.clone());
            }
            if depth > 0 && p.chance(2, 3) {
                if let Some(e) = gen_call(p, sc, cur, want, depth, &vis) {
                    return e;
                }
            }
            // closure literal; its body may use the enclosing int variables (captured)
            let mut vars = sc.vars.clone();
            vars.retain(|(n, _)| n != "q");
            let sc2 = Scope { proj: sc.proj, pkg: sc.pkg, local_fns: sc.local_fns, vars };
            let body = gen_expr(p, &sc2, cur, &Ty::Int, depth.saturating_sub(1).min(1));
            Expr::MkClosure(Box::new(body))
        }
        Ty::Gen(gp, gi) => {
            let same: Vec<&(String, Ty)> = sc.vars.iter().filter(|(_, t)| t == want).collect();
            if !same.is_empty() && p.chance(1, 2) {
                return Expr::Var(p.pick(&same).0.clone());
            }
            if depth > 0 && p.chance(1, 2) {
                if let Some(e) = gen_call(p, sc, cur, want, depth, &vis) {
                    return e;
                }
            }
            let v = gen_expr(p, sc, cur, &Ty::Int, depth.saturating_sub(1));
            Expr::MkGen(*gp, *gi, Box::new(v))
        }
        Ty::Str => {
            if depth > 0 {
                match p.below(5) {
                    0 => {
                        let a = Box::new(gen_expr(p, sc, cur, &Ty::Str, depth - 1));
                        let b = Box::new(gen_expr(p, sc, cur, &Ty::Str, depth - 1));
                        return Expr::Concat(a, b);
                    }
                    1 => {
                        return Expr::IntToStr(Box::new(gen_expr(p, sc, cur, &Ty::Int, depth - 1)));
                    }
                    2 => {
                        if let Some(e) = gen_call(p, sc, cur, &Ty::Str, depth, &vis) {
                            return e;
                        }
                    }
                    3 => {
                        if let Some(e) = gen_trait_call(p, sc, cur, &Ty::Str, depth, &vis) {
                            return e;
                        }
                    }
                    _ => {
                        // derived to_string of a struct
                        let mut cands = Vec::new();
                        for &vp in &vis {
                            for (si, s) in pkg_of(vp).structs.iter().enumerate() {
                                if s.derive_tostring {
                                    cands.push((vp, si));
                                }
                            }
                        }
                        if !cands.is_empty() {
                            let (sp, si) = *p.pick(&cands);
                            // receiver is a variable or a literal, never a call: goml's typer
                            // cannot resolve `.to_string()` on a cross-package call result
                            // ("Method to_string not found for type ExprId{..}"), a front-end
                            // limitation outside the claimed properties
                            let v = gen_expr(p, sc, cur, &Ty::Struct(sp, si), 0);
                            return Expr::ToString(Box::new(v));
                        }
                    }
                }
            }
            if p.chance(1, 6) {
                // 15-17 significant digits, sometimes with an exponent
                let mant = p.below(9_000_000_000_000_000) + 1_000_000_000_000_000;
                let digits = mant.to_string();
                let lit = match p.below(3) {
                    0 => format!("0.{digits}"),
                    1 => format!("{}.{}", &digits[..3], &digits[3..]),
                    _ => format!("{}.{}", &digits[..1], &digits[1..]),
                };
                return Expr::FloatStr(lit);
            }
            let strs: Vec<&(String, Ty)> = sc.vars.iter().filter(|(_, t)| *t == Ty::Str).collect();
            if !strs.is_empty() && p.chance(1, 2) {
                return Expr::Var(p.pick(&strs).0.clone());
            }
            // now and then a literal that needs escaping in the JSON artifact and in the Go text
            // (goml keeps the text between the quotes as it is: `\"` and `\\` stay two characters;
            // a backslash may be the very last character)
            match p.below(12) {
                0 => Expr::StrLit("q\\\"t".to_string()),
                1 => Expr::StrLit("b\\\\".to_string()),
                2 => Expr::StrLit("n\\nl".to_string()),
                3 => Expr::StrLit("\u{e9}\u{4e2d}".to_string()),
                _ => Expr::StrLit(format!("s{}", p.below(10))),
            }
        }
        Ty::Struct(sp, si) => {
            let same: Vec<&(String, Ty)> = sc.vars.iter().filter(|(_, t)| t == want).collect();
            if !same.is_empty() && p.chance(1, 2) {
                return Expr::Var(p.pick(&same).0.clone());
            }
            if depth > 0 && p.chance(1, 3) {
                if let Some(e) = gen_call(p, sc, cur, want, depth, &vis) {
                    return e;
                }
            }
            let n = pkg_of(*sp).structs[*si].fields.len();
            let d = depth.saturating_sub(1);
            let fields = (0..n).map(|_| gen_expr(p, sc, cur, &Ty::Int, d)).collect();
            Expr::MkStruct(*sp, *si, fields)
        }
        Ty::Enum(ep, ei) => {
            let same: Vec<&(String, Ty)> = sc.vars.iter().filter(|(_, t)| t == want).collect();
            if !same.is_empty() && p.chance(1, 2) {
                return Expr::Var(p.pick(&same).0.clone());
            }
            let ed = &pkg_of(*ep).enums[*ei];
            let vi = p.usize(ed.variants.len());
            let d = depth.saturating_sub(1);
            let args = (0..ed.variants[vi].1).map(|_| gen_expr(p, sc, cur, &Ty::Int, d)).collect();
            Expr::MkEnum(*ep, *ei, vi, args)
        }
    }
}

fn gen_call(p: &mut Prng, sc: &Scope, cur: &Pkg, want: &Ty, depth: u32, vis: &[usize]) -> Option<Expr> {
    let mut cands: Vec<(usize, usize)> = Vec::new();
    for &vp in vis {
        let fns: &[FnDef] = if vp == sc.pkg { sc.local_fns } else { &sc.proj.pkgs[vp].fns };
        for (fi, f) in fns.iter().enumerate() {
            if f.ret == *want
                && f.params.iter().all(|(_, t)| ty_nameable(t, vis))
                && (f.bound.is_none())
            {
                cands.push((vp, fi));
            }
        }
    }
    if cands.is_empty() {
        return None;
    }
    let (fp, fi) = *p.pick(&cands);
    let f: &FnDef = if fp == sc.pkg { &sc.local_fns[fi] } else { &sc.proj.pkgs[fp].fns[fi] };
    let params = f.params.clone();
    let args = params.iter().map(|(_, t)| gen_expr(p, sc, cur, t, depth - 1)).collect();
    Some(Expr::Call(fp, fi, args))
}

fn gen_trait_call(p: &mut Prng, sc: &Scope, cur: &Pkg, want: &Ty, depth: u32, vis: &[usize]) -> Option<Expr> {
    // impls visible: any impl in any package of the project built so far whose trait and struct
    // are nameable here and whose impl package is visible (so the impl is in scope).
    let mut cands = Vec::new();
    let pkgs_iter: Vec<(usize, &Pkg)> = vis
        .iter()
        .map(|&i| (i, if i == sc.pkg { cur } else { &sc.proj.pkgs[i] }))
        .collect();
    for (_, pk) in pkgs_iter.iter() {
        for im in pk.impls.iter() {
            if !vis.contains(&im.tr.0) || !vis.contains(&im.st.0) {
                continue;
            }
            let td = if im.tr.0 == sc.pkg { &cur.traits[im.tr.1] } else { &sc.proj.pkgs[im.tr.0].traits[im.tr.1] };
            for (mi, (_, rt)) in td.methods.iter().enumerate() {
                if rt == want {
                    cands.push((im.tr, im.st, mi));
                }
            }
        }
    }
    if cands.is_empty() {
        return None;
    }
    let (tr, st, mi) = *p.pick(&cands);
    let recv = gen_expr(p, sc, cur, &Ty::Struct(st.0, st.1), depth - 1);
    Some(Expr::TraitCall(tr, mi, Box::new(recv), false))
}

fn item_name(p: &mut Prng, cfg: &GenCfg, kind: &str, pkg: usize, idx: usize, taken: &mut Vec<String>) -> String {
    let pools: &[&str] = match kind {
        "S" => &["Point", "Pair", "Item", "Cell"],
        "E" => &["Op", "Color", "Shape", "Kind"],
        "T" => &["Show", "Size", "Score"],
        "f" => &["make", "sum", "calc", "pick", "fold", "step"],
        "G" => &["Boxed", "Wrap", "Slot"],
        _ => &["m"],
    };
    if cfg.collide_names {
        for _ in 0..3 {
            let c = p.pick(pools).to_string();
            if !taken.contains(&c) {
                taken.push(c.clone());
                return c;
            }
        }
    }
    let pk = PKG_NAMES[pkg].to_lowercase();
    let base = match kind {
        "S" => format!("S{}{}", &pk[1..], idx),
        "E" => format!("E{}{}", &pk[1..], idx),
        "T" => format!("T{}{}", &pk[1..], idx),
        "G" => format!("G{}{}", &pk[1..], idx),
        _ => format!("{}_{}{}", kind, &pk[1..], idx),
    };
    let mut n = base.clone();
    let mut k = 0;
    while taken.contains(&n) {
        k += 1;
        n = format!("{base}x{k}");
    }
    taken.push(n.clone());
    n
}

pub fn generate(p: &mut Prng, cfg: &GenCfg) -> Project {
    let npk = 1 + p.usize(cfg.max_pkgs);
    let mut proj = Project::default();
    for i in 0..npk {
        proj.pkgs.push(Pkg { name: PKG_NAMES[i].to_string(), nfiles: 1, ..Default::default() });
    }
    // import DAG: i imports a random subset of higher indices; every lib is reachable from Main
    for i in 0..npk {
        let mut imps = Vec::new();
        for j in (i + 1)..npk {
            if p.chance(1, 2) {
                imps.push(j);
            }
        }
        proj.pkgs[i].imports = imps;
    }
    for j in 1..npk {
        let reachable = (0..j).any(|i| proj.pkgs[i].imports.contains(&j));
        if !reachable {
            let i = p.usize(j);
            proj.pkgs[i].imports.push(j);
            proj.pkgs[i].imports.sort();
        }
    }
    // build packages from the leaves up so that imported items exist
    for pi in (0..npk).rev() {
        let mut cur = proj.pkgs[pi].clone();
        cur.nfiles = 1 + p.usize(cfg.max_files);
        let mut taken: Vec<String> = Vec::new();
        if pi != 0 || p.chance(1, 2) {
            let ns = p.usize(3);
            for i in 0..ns {
                let nf = 1 + p.usize(3);
                cur.structs.push(StructDef {
                    name: item_name(p, cfg, "S", pi, i, &mut taken),
                    fields: (0..nf).map(|k| ["x", "y", "z"][k].to_string()).collect(),
                    derive_tostring: cfg.derives && p.chance(1, 2),
                });
            }
            let ne = p.usize(3);
            for i in 0..ne {
                let nv = 1 + p.usize(3);
                let en = item_name(p, cfg, "E", pi, i, &mut taken);
                cur.enums.push(EnumDef {
                    variants: (0..nv).map(|k| (format!("{}{}", ["A", "B", "C"][k], i), p.usize(3))).collect(),
                    name: en,
                });
            }
            cur.externs = pi != 0 && cfg.generics && p.chance(1, 3);
            if cfg.generics {
                let ng = p.usize(2);
                for i in 0..ng {
                    let g = item_name(p, cfg, "G", pi, i, &mut taken);
                    cur.generics.push(g);
                }
            }
            if cfg.traits {
                let nt = p.usize(3);
                for i in 0..nt {
                    let nm = 1 + p.usize(2);
                    cur.traits.push(TraitDef {
                        name: item_name(p, cfg, "T", pi, i, &mut taken),
                        methods: (0..nm)
                            .map(|k| (format!("m{}{}", k, i), if p.chance(3, 4) { Ty::Int } else { Ty::Str }))
                            .collect(),
                    });
                }
            }
        }
        // impls: (trait, struct) pairs legal under the orphan rule (trait or struct local),
        // and unique across the project
        if cfg.traits {
            let vis = visible_pkgs(&proj, pi, &cur.imports);
            let mut pairs = Vec::new();
            for &tp in &vis {
                let tpk = if tp == pi { &cur } else { &proj.pkgs[tp] };
                for ti in 0..tpk.traits.len() {
                    for &sp in &vis {
                        let spk = if sp == pi { &cur } else { &proj.pkgs[sp] };
                        for si in 0..spk.structs.len() {
                            if tp == pi || sp == pi {
                                pairs.push(((tp, ti), (sp, si)));
                            }
                        }
                    }
                }
            }
            p.shuffle(&mut pairs);
            let ni = p.usize(3).min(pairs.len());
            for (tr, st) in pairs.into_iter().take(ni) {
                let exists = proj.pkgs.iter().chain(std::iter::once(&cur)).any(|pk| {
                    pk.impls.iter().any(|im| im.tr == tr && im.st == st)
                });
                if exists {
                    continue;
                }
                let td = if tr.0 == pi { cur.traits[tr.1].clone() } else { proj.pkgs[tr.0].traits[tr.1].clone() };
                let mut bodies = Vec::new();
                for (_, rt) in td.methods.iter() {
                    let sc = Scope {
                        proj: &proj,
                        pkg: pi,
                        local_fns: &[],
                        vars: vec![("self".to_string(), Ty::Struct(st.0, st.1))],
                    };
                    // impl bodies may not call impls of the same package under construction
                    let mut tmp = cur.clone();
                    tmp.impls.clear();
                    tmp.inherents.clear();
                    bodies.push(gen_expr(p, &sc, &tmp, rt, cfg.depth.min(2)));
                }
                cur.impls.push(ImplDef { tr, st, bodies });
            }
            // inherent methods on local structs
            for si in 0..cur.structs.len() {
                if p.chance(1, 3) {
                    let sc = Scope {
                        proj: &proj,
                        pkg: pi,
                        local_fns: &[],
                        vars: vec![("self".to_string(), Ty::Struct(pi, si))],
                    };
                    let mut tmp = cur.clone();
                    tmp.impls.clear();
                    tmp.inherents.clear();
                    let body = gen_expr(p, &sc, &tmp, &Ty::Int, cfg.depth.min(2));
                    cur.inherents.push(InherentDef { st: si, name: format!("im{}", si), body });
                }
            }
        }
        // functions
        // a library may consist of declarations only (types, traits, externs; no function)
        let decl_only = pi != 0 && (!cur.structs.is_empty() || !cur.enums.is_empty() || !cur.generics.is_empty()) && cur.impls.is_empty() && cur.inherents.is_empty() && !cur.externs && p.chance(1, 5);
        let nf = if pi == 0 { p.usize(3) } else if decl_only { 0 } else { 1 + p.usize(4) };
        let mut fns: Vec<FnDef> = Vec::new();
        for i in 0..nf {
            let vis = visible_pkgs(&proj, pi, &cur.imports);
            // generic bounded function
            if cfg.generics && cfg.traits && p.chance(1, 4) {
                let mut trs = Vec::new();
                for &tp in &vis {
                    let tpk = if tp == pi { &cur } else { &proj.pkgs[tp] };
                    for (ti, t) in tpk.traits.iter().enumerate() {
                        if t.methods[0].1 == Ty::Int {
                            trs.push((tp, ti));
                        }
                    }
                }
                if !trs.is_empty() {
                    let tr = *p.pick(&trs);
                    let k = p.range(0, 9) as i32;
                    fns.push(FnDef {
                        name: item_name(p, cfg, "g", pi, i, &mut taken),
                        params: vec![("x".to_string(), Ty::Int)], // placeholder; rendered as T
                        ret: Ty::Int,
                        body: Expr::Add(Box::new(Expr::BoundVar), Box::new(Expr::Lit(k))),
                        bound: Some(tr),
                        noise: 0,
                    });
                    continue;
                }
            }
            let np = p.usize(4);
            let mut params = Vec::new();
            for k in 0..np {
                let t = match p.below(6) {
                    4 if cfg.generics => {
                        let mut gs = Vec::new();
                        for &vp in &vis {
                            let n = if vp == pi { cur.generics.len() } else { proj.pkgs[vp].generics.len() };
                            for gi in 0..n {
                                gs.push(Ty::Gen(vp, gi));
                            }
                        }
                        if gs.is_empty() { Ty::Int } else { p.pick(&gs).clone() }
                    }
                    // no closure-typed parameters: goml lowers `f: (int32) -> int32` to a Go func
                    // parameter but passes closure structs to it (ill-typed Go; a lambda-lifting
                    // limitation outside the claimed properties)
                    4 | 5 => Ty::Int,
                    0 | 1 => Ty::Int,
                    2 => {
                        let mut ss = Vec::new();
                        for &vp in &vis {
                            let n = if vp == pi { cur.structs.len() } else { proj.pkgs[vp].structs.len() };
                            for si in 0..n {
                                ss.push(Ty::Struct(vp, si));
                            }
                        }
                        if ss.is_empty() { Ty::Int } else { p.pick(&ss).clone() }
                    }
                    _ => {
                        let mut es = Vec::new();
                        for &vp in &vis {
                            let n = if vp == pi { cur.enums.len() } else { proj.pkgs[vp].enums.len() };
                            for ei in 0..n {
                                es.push(Ty::Enum(vp, ei));
                            }
                        }
                        if es.is_empty() { Ty::Int } else { p.pick(&es).clone() }
                    }
                };
                params.push((format!("a{k}"), t));
            }
            let ret = match p.below(10) {
                8 if cfg.generics => Ty::Fun,
                9 if cfg.generics && !cur.generics.is_empty() => Ty::Gen(pi, p.usize(cur.generics.len())),
                0 => Ty::Str,
                1 => {
                    let n = cur.structs.len();
                    if n > 0 { Ty::Struct(pi, p.usize(n)) } else { Ty::Int }
                }
                _ => Ty::Int,
            };
            let sc = Scope { proj: &proj, pkg: pi, local_fns: &fns, vars: params.clone() };
            let body = gen_expr(p, &sc, &cur, &ret, cfg.depth);
            fns.push(FnDef {
                name: item_name(p, cfg, "f", pi, i, &mut taken),
                params,
                ret,
                body,
                bound: None,
                // now and then a long function: dozens of sequential lets nest dozens of levels
                // deep in the Core IR, which has to survive the artifact boundary like any other
                noise: if p.chance(1, 16) { 30 + p.below(170) as u32 } else { 0 },
            });
        }
        cur.fns = fns;
        proj.pkgs[pi] = cur;
    }
    // sometimes: one more library that consists of declarations only (a struct and an enum, no
    // function, no impl), used by Main — such a package contributes types but no code
    if npk < PKG_NAMES.len() && p.chance(1, 6) {
        let di = proj.pkgs.len();
        let tag = PKG_NAMES[di].to_lowercase();
        proj.pkgs.push(Pkg {
            name: PKG_NAMES[di].to_string(),
            nfiles: 1,
            structs: vec![StructDef { name: format!("D{}s", &tag[1..]), fields: vec!["x".into(), "y".into()], derive_tostring: false }],
            enums: vec![EnumDef { name: format!("D{}e", &tag[1..]), variants: vec![("DA".into(), 0), ("DB".into(), 1)] }],
            ..Default::default()
        });
        proj.pkgs[0].imports.push(di);
        let k = p.range(1, 9) as i32;
        proj.main_prints.push(Expr::Add(
            Box::new(Expr::Field(Box::new(Expr::MkStruct(di, 0, vec![Expr::Lit(k), Expr::Lit(2)])), "x".into(), (di, 0))),
            Box::new(Expr::Match(Box::new(Expr::MkEnum(di, 0, 1, vec![Expr::Lit(k + 1)])), (di, 0), vec![Expr::Lit(0), Expr::Var("v9_0".into())], 9)),
        ));
        proj.main_print_tys.push(Ty::Int);
    }
    // main prints
    let nprints = 1 + p.usize(4);
    for _ in 0..nprints {
        let cur = proj.pkgs[0].clone();
        let fns = cur.fns.clone();
        let sc = Scope { proj: &proj, pkg: 0, local_fns: &fns, vars: vec![] };
        let ty = if p.chance(1, 5) { Ty::Str } else { Ty::Int };
        let mut e = gen_expr(p, &sc, &cur, &ty, cfg.depth + 1);
        // make sure imported packages are actually used now and then
        if p.chance(1, 2) {
            if let Some(c) = gen_call(p, &sc, &cur, &ty, cfg.depth + 1, &visible_pkgs(&proj, 0, &cur.imports)) {
                e = c;
            }
        }
        proj.main_prints.push(e);
        proj.main_print_tys.push(ty);
    }
    // bounded generic calls from main: g(x) with a struct that has the impl visible
    let cur = proj.pkgs[0].clone();
    let vis = visible_pkgs(&proj, 0, &cur.imports);
    let mut extra = Vec::new();
    for &vp in &vis {
        for (fi, f) in proj.pkgs[vp].fns.iter().enumerate() {
            if let Some(tr) = f.bound {
                if !vis.contains(&tr.0) {
                    continue;
                }
                // find an impl of tr whose struct and impl package are visible from Main
                for &ip in &vis {
                    for im in proj.pkgs[ip].impls.iter() {
                        if im.tr == tr && vis.contains(&im.st.0) {
                            let n = proj.pkgs[im.st.0].structs[im.st.1].fields.len();
                            let recv = Expr::MkStruct(im.st.0, im.st.1, (0..n).map(|k| Expr::Lit(k as i32 + 1)).collect());
                            extra.push(Expr::Call(vp, fi, vec![recv]));
                        }
                    }
                }
            }
        }
    }
    for e in extra.into_iter().take(3) {
        proj.main_prints.push(e);
        proj.main_print_tys.push(Ty::Int);
    }
    proj
}

// ---------------------------------------------------------------------------------------------
// rendering
// ---------------------------------------------------------------------------------------------

impl Project {
    fn q(&self, from: usize, pkg: usize, name: &str) -> String {
        if from == pkg { name.to_string() } else { format!("{}::{}", self.pkgs[pkg].name, name) }
    }

    pub fn ty_str(&self, from: usize, t: &Ty) -> String {
        match t {
            Ty::Int => "int32".to_string(),
            Ty::Str => "string".to_string(),
            Ty::Struct(p, i) => self.q(from, *p, &self.pkgs[*p].structs[*i].name),
            Ty::Enum(p, i) => self.q(from, *p, &self.pkgs[*p].enums[*i].name),
            Ty::Fun => "(int32) -> int32".to_string(),
            Ty::Gen(p, i) => format!("{}[int32]", self.q(from, *p, &self.pkgs[*p].generics[*i])),
        }
    }

    pub fn expr_str(&self, from: usize, e: &Expr) -> String {
        match e {
            Expr::Lit(v) => {
                if *v < 0 { format!("(0 - {})", -(*v as i64)) } else { v.to_string() }
            }
            Expr::StrLit(s) => format!("\"{s}\""),
            Expr::Var(n) => n.clone(),
            Expr::Add(a, b) => format!("({} + {})", self.expr_str(from, a), self.expr_str(from, b)),
            Expr::Sub(a, b) => format!("({} - {})", self.expr_str(from, a), self.expr_str(from, b)),
            Expr::Mul(a, b) => format!("({} * {})", self.expr_str(from, a), self.expr_str(from, b)),
            Expr::Concat(a, b) => format!("({} + {})", self.expr_str(from, a), self.expr_str(from, b)),
            Expr::IntToStr(a) => format!("int32_to_string({})", self.expr_str(from, a)),
            Expr::Field(a, f, _) => {
                let inner = self.expr_str(from, a);
                match **a {
                    Expr::Var(_) => format!("{inner}.{f}"),
                    _ => format!("({inner}).{f}"),
                }
            }
            Expr::Call(p, f, args) => {
                let name = self.q(from, *p, &self.pkgs[*p].fns[*f].name);
                let a: Vec<String> = args.iter().map(|x| self.expr_str(from, x)).collect();
                format!("{}({})", name, a.join(", "))
            }
            Expr::MkStruct(p, s, fields) => {
                let sd = &self.pkgs[*p].structs[*s];
                let name = self.q(from, *p, &sd.name);
                let fs: Vec<String> = sd
                    .fields
                    .iter()
                    .zip(fields.iter())
                    .map(|(n, x)| format!("{}: {}", n, self.expr_str(from, x)))
                    .collect();
                format!("{} {{ {} }}", name, fs.join(", "))
            }
            Expr::MkEnum(p, e, v, args) => {
                let ed = &self.pkgs[*p].enums[*e];
                let name = self.q(from, *p, &ed.name);
                if args.is_empty() {
                    format!("{}::{}", name, ed.variants[*v].0)
                } else {
                    let a: Vec<String> = args.iter().map(|x| self.expr_str(from, x)).collect();
                    format!("{}::{}({})", name, ed.variants[*v].0, a.join(", "))
                }
            }
            Expr::Match(s, (p, e), arms, tag) => {
                let ed = &self.pkgs[*p].enums[*e];
                let name = self.q(from, *p, &ed.name);
                let mut out = format!("(match {} {{ ", self.expr_str(from, s));
                for ((vn, n), body) in ed.variants.iter().zip(arms.iter()) {
                    if *n == 0 {
                        out.push_str(&format!("{}::{} => {}, ", name, vn, self.expr_str(from, body)));
                    } else {
                        let bs: Vec<String> = (0..*n).map(|k| format!("v{tag}_{k}")).collect();
                        out.push_str(&format!(
                            "{}::{}({}) => {}, ",
                            name,
                            vn,
                            bs.join(", "),
                            self.expr_str(from, body)
                        ));
                    }
                }
                out.push_str("})");
                out
            }
            Expr::If(a, b, c, d) => format!(
                "(if {} < {} {{ {} }} else {{ {} }})",
                self.expr_str(from, a),
                self.expr_str(from, b),
                self.expr_str(from, c),
                self.expr_str(from, d)
            ),
            Expr::TraitCall(tr, mi, recv, method_syntax) => {
                let td = &self.pkgs[tr.0].traits[tr.1];
                if *method_syntax {
                    format!("({}).{}()", self.expr_str(from, recv), td.methods[*mi].0)
                } else {
                    format!("{}::{}({})", self.q(from, tr.0, &td.name), td.methods[*mi].0, self.expr_str(from, recv))
                }
            }
            Expr::Inherent(p, ii, recv) => {
                let inh = &self.pkgs[*p].inherents[*ii];
                let sname = self.q(from, *p, &self.pkgs[*p].structs[inh.st].name);
                format!("{}::{}({})", sname, inh.name, self.expr_str(from, recv))
            }
            Expr::BoundVar => "BOUND".to_string(),
            Expr::ToString(a) => format!("({}).to_string()", self.expr_str(from, a)),
            Expr::FloatStr(lit) => format!("float64_to_string({lit})"),
            Expr::Nap(p, a) => format!("{}({})", self.q(from, *p, "zz_nap"), self.expr_str(from, a)),
            Expr::MkClosure(b) => format!("(|q: int32| (q + {}))", self.expr_str(from, b)),
            Expr::Apply(f, a) => match **f {
                Expr::Var(_) => format!("{}({})", self.expr_str(from, f), self.expr_str(from, a)),
                _ => format!("({})({})", self.expr_str(from, f), self.expr_str(from, a)),
            },
            // a block with a `let` is only allowed as a branch body, so the binding lives in the
            // taken branch of a trivially true conditional
            Expr::LetApply(f, a, tag) => format!(
                "(if 0 < 1 {{ let fz{tag} = {}; fz{tag}({}) }} else {{ 0 }})",
                self.expr_str(from, f),
                self.expr_str(from, a)
            ),
            Expr::MkGen(p, g, v) => format!("{} {{ v: {} }}", self.q(from, *p, &self.pkgs[*p].generics[*g]), self.expr_str(from, v)),
            Expr::GenField(a) => {
                let inner = self.expr_str(from, a);
                match **a {
                    Expr::Var(_) => format!("{inner}.v"),
                    _ => format!("({inner}).v"),
                }
            }
        }
    }

    fn fn_str(&self, pi: usize, f: &FnDef) -> String {
        let mut s = String::new();
        if let Some(tr) = f.bound {
            let td = &self.pkgs[tr.0].traits[tr.1];
            let tname = self.q(pi, tr.0, &td.name);
            let k = match &f.body {
                Expr::Add(_, k) => self.expr_str(pi, k),
                _ => "0".to_string(),
            };
            s.push_str(&format!(
                "fn {}[T: {}](x: T) -> int32 {{\n{}    {}::{}(x) + {}\n}}\n",
                f.name,
                tname,
                noise_str(f.noise),
                tname,
                td.methods[0].0,
                k
            ));
            return s;
        }
        let ps: Vec<String> = f.params.iter().map(|(n, t)| format!("{}: {}", n, self.ty_str(pi, t))).collect();
        s.push_str(&format!(
            "fn {}({}) -> {} {{\n{}    {}\n}}\n",
            f.name,
            ps.join(", "),
            self.ty_str(pi, &f.ret),
            noise_str(f.noise),
            self.expr_str(pi, &f.body)
        ));
        s
    }

    /// Render one package to its items (in declaration order), each a text chunk; the first
    /// returned number is how many leading items are type-level definitions (structs, enums,
    /// traits). goml processes files in path order and needs a trait/type to be declared in an
    /// earlier-or-same file than its impls, so those all go into the first file.
    fn pkg_items(&self, pi: usize) -> (usize, Vec<String>) {
        let pk = &self.pkgs[pi];
        let mut items = Vec::new();
        for s in &pk.structs {
            let fs: Vec<String> = s.fields.iter().map(|f| format!("    {f}: int32,\n")).collect();
            // structs with an even number of fields derive both traits (two generated impl blocks)
            let d = if s.derive_tostring && s.fields.len() % 2 == 0 {
                "#[derive(ToString, ToJson)]\n"
            } else if s.derive_tostring {
                "#[derive(ToString)]\n"
            } else {
                ""
            };
            items.push(format!("{}struct {} {{\n{}}}\n", d, s.name, fs.join("")));
        }
        for e in &pk.enums {
            let vs: Vec<String> = e
                .variants
                .iter()
                .map(|(n, k)| {
                    if *k == 0 {
                        format!("    {n},\n")
                    } else {
                        format!("    {}({}),\n", n, vec!["int32"; *k].join(", "))
                    }
                })
                .collect();
            items.push(format!("enum {} {{\n{}}}\n", e.name, vs.join("")));
        }
        for g in &pk.generics {
            items.push(format!("struct {g}[T] {{\n    v: T,\n}}\n"));
        }
        if pk.externs {
            // externs from several Go packages; the calls into `strings` and `os` are reachable
            // (they survive dead-code elimination and need their imports) but never executed
            items.push("extern type Duration\n\nextern \"go\" \"time\" sleep(d: Duration) -> unit\nextern \"go\" \"time\" duration(nanos: int32) -> Duration\nextern \"go\" \"strings\" to_upper(s: string) -> string\nextern \"go\" \"os\" getpid() -> int32\nextern \"go\" \"path\" base(s: string) -> string\n\nfn zz_nap(n: int32) -> int32 {\n    sleep(duration(n));\n    if n < 0 - 2147483000 {\n        string_println(to_upper(base(\"x\")));\n        string_println(int32_to_string(getpid()))\n    } else {\n        ()\n    };\n    n\n}\n".to_string());
        }
        for t in &pk.traits {
            let ms: Vec<String> = t
                .methods
                .iter()
                .map(|(n, rt)| format!("    fn {}(Self) -> {};\n", n, self.ty_str(pi, rt)))
                .collect();
            items.push(format!("trait {} {{\n{}}}\n", t.name, ms.join("")));
        }
        let ndefs = items.len();
        for im in &pk.impls {
            let td = &self.pkgs[im.tr.0].traits[im.tr.1];
            let sname = self.q(pi, im.st.0, &self.pkgs[im.st.0].structs[im.st.1].name);
            let mut body = String::new();
            for ((mn, rt), b) in td.methods.iter().zip(im.bodies.iter()) {
                body.push_str(&format!(
                    "    fn {}(self: {}) -> {} {{\n        {}\n    }}\n",
                    mn,
                    sname,
                    self.ty_str(pi, rt),
                    self.expr_str(pi, b)
                ));
            }
            items.push(format!("impl {} for {} {{\n{}}}\n", self.q(pi, im.tr.0, &td.name), sname, body));
        }
        for inh in &pk.inherents {
            let sname = &pk.structs[inh.st].name;
            items.push(format!(
                "impl {} {{\n    fn {}(self: {}) -> int32 {{\n        {}\n    }}\n}}\n",
                sname,
                inh.name,
                sname,
                self.expr_str(pi, &inh.body)
            ));
        }
        for f in &pk.fns {
            items.push(self.fn_str(pi, f));
        }
        (ndefs, items)
    }

    fn main_fn(&self) -> String {
        let mut s = String::from("fn main() -> unit {\n");
        for (e, t) in self.main_prints.iter().zip(self.main_print_tys.iter()) {
            match t {
                Ty::Int => s.push_str(&format!("    string_println(int32_to_string({}));\n", self.expr_str(0, e))),
                _ => s.push_str(&format!("    string_println({});\n", self.expr_str(0, e))),
            }
        }
        s.push_str("    ()\n}\n");
        s
    }

    /// File names of package pi relative to the project root.
    pub fn pkg_files(&self, pi: usize) -> Vec<String> {
        let pk = &self.pkgs[pi];
        let names = ["a_lib.gom", "b.gom", "c.gom", "d.gom"];
        (0..pk.nfiles.max(1))
            .map(|k| {
                if pi == 0 {
                    if k == 0 { "main.gom".to_string() } else { format!("m{}", names[k]) }
                } else {
                    format!("{}/{}", pk.name, names[k])
                }
            })
            .collect()
    }

    pub fn render_pkg(&self, pi: usize) -> Files {
        let pk = &self.pkgs[pi];
        let files = self.pkg_files(pi);
        let nf = files.len();
        let mut texts: Vec<String> = files
            .iter()
            .enumerate()
            .map(|(fi, _)| {
                let mut h = format!("package {}\n", pk.name);
                for &i in &pk.imports {
                    // a package's imports are the union over its files: every import is declared
                    // in at least one file, not necessarily the first
                    // (imports are checked per file in goml, so every file declares all of them)
                    if nf >= 2 && fi == nf - 1 && pk.omit_import_last == Some(i) {
                        continue;
                    }
                    h.push_str(&format!("import {}\n", self.pkgs[i].name));
                }
                for e in &pk.extra_imports {
                    h.push_str(&format!("import {e}\n"));
                }
                h.push('\n');
                h
            })
            .collect();
        let n = texts.len();
        let (ndefs, items) = self.pkg_items(pi);
        for (k, item) in items.into_iter().enumerate() {
            let slot = if k < ndefs { 0 } else { k % n };
            texts[slot].push_str(&item);
            texts[slot].push('\n');
        }
        if pi == 0 {
            texts[0].push_str(&self.main_fn());
        }
        if !pk.raw.is_empty() {
            texts[0].push_str(&pk.raw);
        }
        if !pk.raw_last.is_empty() {
            let last = texts.len() - 1;
            texts[last].push_str(&pk.raw_last);
        }
        files.into_iter().zip(texts).map(|(f, t)| (f, t.into_bytes())).collect()
    }

    pub fn render(&self) -> Files {
        let mut out = Files::new();
        for pi in 0..self.pkgs.len() {
            out.extend(self.render_pkg(pi));
        }
        out
    }

    /// Everything a dependent can observe of package pi (signatures, no bodies), excluding deps.
    pub fn interface_text(&self, pi: usize) -> String {
        let pk = &self.pkgs[pi];
        let mut s = format!("package {}\n", pk.name);
        for &i in &pk.imports {
            s.push_str(&format!("import {}\n", self.pkgs[i].name));
        }
        for st in &pk.structs {
            s.push_str(&format!("struct {} {:?} derive={}\n", st.name, st.fields, st.derive_tostring));
        }
        for e in &pk.enums {
            s.push_str(&format!("enum {} {:?}\n", e.name, e.variants));
        }
        for g in &pk.generics {
            s.push_str(&format!("generic struct {g}\n"));
        }
        if pk.externs {
            s.push_str("externs Duration sleep duration zz_nap\n");
        }
        for t in &pk.traits {
            s.push_str(&format!("trait {} {:?}\n", t.name, t.methods));
        }
        for im in &pk.impls {
            s.push_str(&format!("impl {:?} for {:?}\n", im.tr, im.st));
        }
        for inh in &pk.inherents {
            s.push_str(&format!("inherent {} {}\n", inh.st, inh.name));
        }
        for f in &pk.fns {
            // parameter names are not observable by dependents, only their types
            let ptys: Vec<&Ty> = f.params.iter().map(|(_, t)| t).collect();
            s.push_str(&format!("fn {} {:?} -> {:?} bound={:?}\n", f.name, ptys, f.ret, f.bound));
        }
        s
    }

    /// Topological build order (dependencies first).
    pub fn build_order(&self) -> Vec<usize> {
        (0..self.pkgs.len()).rev().collect()
    }
}

fn noise_str(n: u32) -> String {
    let mut s = String::new();
    for k in 0..n {
        match k % 4 {
            3 => s.push_str(&format!("    let nz{k}: [int32; 0] = [];\n")),
            0 => s.push_str(&format!("    let nz{k} = {k} + 1;\n")),
            1 => s.push_str(&format!("    let nz{k} = ({k}, \"t\");\n")),
            _ => s.push_str(&format!("    let nz{k} = |q: int32| q + {k};\n")),
        }
    }
    s
}

// ---------------------------------------------------------------------------------------------
// evaluation (prediction of stdout)
// ---------------------------------------------------------------------------------------------

#[derive(Clone, Debug)]
pub enum Val {
    I(i32),
    S(String),
    St((usize, usize), Vec<Val>),
    En((usize, usize), usize, Vec<Val>),
    Clo(BTreeMap<String, Val>, Box<Expr>),
    Gen(Box<Val>),
}

impl Project {
    fn eval(&self, e: &Expr, env: &BTreeMap<String, Val>, fuel: &mut u32) -> Option<Val> {
        if *fuel == 0 {
            return None;
        }
        *fuel -= 1;
        Some(match e {
            Expr::Lit(v) => Val::I(*v),
            Expr::StrLit(s) => Val::S(s.clone()),
            Expr::Var(n) => env.get(n)?.clone(),
            Expr::Add(a, b) | Expr::Sub(a, b) | Expr::Mul(a, b) => {
                let (Val::I(x), Val::I(y)) = (self.eval(a, env, fuel)?, self.eval(b, env, fuel)?) else {
                    return None;
                };
                Val::I(match e {
                    Expr::Add(..) => x.wrapping_add(y),
                    Expr::Sub(..) => x.wrapping_sub(y),
                    _ => x.wrapping_mul(y),
                })
            }
            Expr::Concat(a, b) => {
                let (Val::S(x), Val::S(y)) = (self.eval(a, env, fuel)?, self.eval(b, env, fuel)?) else {
                    return None;
                };
                Val::S(x + &y)
            }
            Expr::IntToStr(a) => {
                let Val::I(x) = self.eval(a, env, fuel)? else { return None };
                Val::S(x.to_string())
            }
            Expr::Field(a, f, (sp, si)) => {
                let Val::St(_, vals) = self.eval(a, env, fuel)? else { return None };
                let idx = self.pkgs[*sp].structs[*si].fields.iter().position(|x| x == f)?;
                vals.get(idx)?.clone()
            }
            Expr::Call(p, f, args) => {
                let fd = &self.pkgs[*p].fns[*f];
                let mut vals = Vec::new();
                for a in args {
                    vals.push(self.eval(a, env, fuel)?);
                }
                if let Some(tr) = fd.bound {
                    let Val::St(st, _) = &vals[0] else { return None };
                    let im = self.find_impl(tr, *st)?;
                    let mut env2 = BTreeMap::new();
                    env2.insert("self".to_string(), vals[0].clone());
                    let Val::I(m) = self.eval(&im.bodies[0], &env2, fuel)? else { return None };
                    let Expr::Add(_, k) = &fd.body else { return None };
                    let Val::I(k) = self.eval(k, env, fuel)? else { return None };
                    return Some(Val::I(m.wrapping_add(k)));
                }
                let mut env2 = BTreeMap::new();
                for ((n, _), v) in fd.params.iter().zip(vals) {
                    env2.insert(n.clone(), v);
                }
                self.eval(&fd.body, &env2, fuel)?
            }
            Expr::MkStruct(p, s, fields) => {
                let mut vals = Vec::new();
                for a in fields {
                    vals.push(self.eval(a, env, fuel)?);
                }
                Val::St((*p, *s), vals)
            }
            Expr::MkEnum(p, en, v, args) => {
                let mut vals = Vec::new();
                for a in args {
                    vals.push(self.eval(a, env, fuel)?);
                }
                Val::En((*p, *en), *v, vals)
            }
            Expr::Match(s, _, arms, tag) => {
                let Val::En(_, v, payload) = self.eval(s, env, fuel)? else { return None };
                let mut env2 = env.clone();
                for (k, pv) in payload.into_iter().enumerate() {
                    env2.insert(format!("v{tag}_{k}"), pv);
                }
                self.eval(arms.get(v)?, &env2, fuel)?
            }
            Expr::If(a, b, c, d) => {
                let (Val::I(x), Val::I(y)) = (self.eval(a, env, fuel)?, self.eval(b, env, fuel)?) else {
                    return None;
                };
                if x < y { self.eval(c, env, fuel)? } else { self.eval(d, env, fuel)? }
            }
            Expr::TraitCall(tr, mi, recv, _) => {
                let r = self.eval(recv, env, fuel)?;
                let Val::St(st, _) = &r else { return None };
                let im = self.find_impl(*tr, *st)?;
                let mut env2 = BTreeMap::new();
                env2.insert("self".to_string(), r.clone());
                self.eval(im.bodies.get(*mi)?, &env2, fuel)?
            }
            Expr::Inherent(p, ii, recv) => {
                let r = self.eval(recv, env, fuel)?;
                let mut env2 = BTreeMap::new();
                env2.insert("self".to_string(), r);
                self.eval(&self.pkgs[*p].inherents[*ii].body, &env2, fuel)?
            }
            Expr::BoundVar => return None,
            Expr::FloatStr(_) => return None,
            Expr::Nap(_, a) => self.eval(a, env, fuel)?,
            Expr::MkClosure(b) => Val::Clo(env.clone(), b.clone()),
            Expr::Apply(f, a) | Expr::LetApply(f, a, _) => {
                let fv = self.eval(f, env, fuel)?;
                let Val::I(x) = self.eval(a, env, fuel)? else { return None };
                let Val::Clo(cenv, body) = fv else { return None };
                let Val::I(b) = self.eval(&body, &cenv, fuel)? else { return None };
                Val::I(x.wrapping_add(b))
            }
            Expr::MkGen(_, _, v) => Val::Gen(Box::new(self.eval(v, env, fuel)?)),
            Expr::GenField(a) => {
                let Val::Gen(v) = self.eval(a, env, fuel)? else { return None };
                *v
            }
            Expr::ToString(a) => {
                let Val::St((sp, si), vals) = self.eval(a, env, fuel)? else { return None };
                let sd = &self.pkgs[sp].structs[si];
                // derived ToString format: Name { f: v, ... }  (validated against the compiler
                // by the behaviour checks; if it differs the prediction is simply not used)
                let fs: Vec<String> = sd
                    .fields
                    .iter()
                    .zip(vals.iter())
                    .map(|(n, v)| match v {
                        Val::I(x) => format!("{n}: {x}"),
                        _ => String::new(),
                    })
                    .collect();
                Val::S(format!("{} {{ {} }}", sd.name, fs.join(", ")))
            }
        })
    }

    fn find_impl(&self, tr: (usize, usize), st: (usize, usize)) -> Option<&ImplDef> {
        for pk in &self.pkgs {
            for im in &pk.impls {
                if im.tr == tr && im.st == st {
                    return Some(im);
                }
            }
        }
        None
    }

    /// Predicted stdout of the program, or None if the prediction ran out of fuel / uses a
    /// construct whose output format the generator does not want to pin (derive ToString).
    pub fn predict_stdout(&self) -> Option<String> {
        let mut out = String::new();
        let mut fuel = 200_000u32;
        for e in &self.main_prints {
            if expr_uses_tostring(self, e, 0) {
                return None;
            }
            match self.eval(e, &BTreeMap::new(), &mut fuel)? {
                Val::I(x) => out.push_str(&format!("{x}\n")),
                Val::S(s) => out.push_str(&format!("{s}\n")),
                _ => return None,
            }
        }
        Some(out)
    }
}

fn expr_uses_tostring(proj: &Project, e: &Expr, depth: u32) -> bool {
    if depth > 12 {
        return true;
    }
    let rec = |x: &Expr| expr_uses_tostring(proj, x, depth + 1);
    match e {
        Expr::ToString(_) | Expr::FloatStr(_) => true,
        Expr::Lit(_) | Expr::StrLit(_) | Expr::Var(_) | Expr::BoundVar => false,
        Expr::Add(a, b) | Expr::Sub(a, b) | Expr::Mul(a, b) | Expr::Concat(a, b) => rec(a) || rec(b),
        Expr::IntToStr(a) | Expr::Field(a, _, _) => rec(a),
        Expr::Call(p, f, args) => args.iter().any(rec) || rec(&proj.pkgs[*p].fns[*f].body),
        Expr::MkStruct(_, _, xs) | Expr::MkEnum(_, _, _, xs) => xs.iter().any(rec),
        Expr::Match(s, _, arms, _) => rec(s) || arms.iter().any(rec),
        Expr::If(a, b, c, d) => rec(a) || rec(b) || rec(c) || rec(d),
        Expr::TraitCall(tr, mi, r, _) => {
            rec(r)
                || proj.pkgs.iter().any(|pk| {
                    pk.impls.iter().any(|im| im.tr == *tr && im.bodies.get(*mi).map(|b| rec(b)).unwrap_or(false))
                })
        }
        Expr::Inherent(p, ii, r) => rec(r) || rec(&proj.pkgs[*p].inherents[*ii].body),
        Expr::MkClosure(b) | Expr::GenField(b) | Expr::MkGen(_, _, b) | Expr::Nap(_, b) => rec(b),
        Expr::Apply(f, a) | Expr::LetApply(f, a, _) => rec(f) || rec(a),
    }
}

// ---------------------------------------------------------------------------------------------
// edits
// ---------------------------------------------------------------------------------------------

#[derive(Clone, Debug, PartialEq, serde::Serialize, serde::Deserialize)]
pub enum Edit {
    /// body-only: change a constant inside function `f` of package `p`
    BodyConst { p: usize, f: usize, delta: i32 },
    /// body-only: add local noise statements (lets, tuples, closures) to function f
    BodyNoise { p: usize, f: usize },
    /// body-only: change a constant in an impl method body
    ImplBodyConst { p: usize, i: usize, delta: i32 },
    /// interface: add a new function
    AddFn { p: usize },
    /// interface: add a parameter to function f (all call sites get an extra literal)
    AddParam { p: usize, f: usize },
    /// interface: add a field to struct s (all literals get an extra value)
    AddField { p: usize, s: usize },
    /// interface: add a variant to enum e (all matches get an extra arm)
    AddVariant { p: usize, e: usize },
    /// interface: add a new struct
    AddStruct { p: usize },
    /// interface: add a new enum
    AddEnum { p: usize },
    /// interface: add a new trait
    AddTrait { p: usize },
    /// interface: add a method to trait t (all impls get a body)
    AddTraitMethod { p: usize, t: usize },
    /// interface: add an impl of a visible trait for a local struct (or local trait for visible struct)
    AddImpl { p: usize },
    /// interface: add an inherent method to struct s
    AddInherent { p: usize, s: usize },
    /// interface: change the return type of a function from int32 to string (callers adapt)
    RenameFn { p: usize, f: usize },
    /// interface: rename a struct field
    RenameField { p: usize, s: usize },
    /// interface: toggle derive(ToString) on struct s (only adds)
    AddDerive { p: usize, s: usize },
    /// interface: the first two variants of enum e change places (every source stays valid, but
    /// constructor indices baked into stale cores no longer mean the same variant)
    SwapVariants { p: usize, e: usize },
    /// interface: the first two fields of struct s change places
    SwapFields { p: usize, s: usize },
}

impl Edit {
    pub fn is_body_only(&self) -> bool {
        matches!(self, Edit::BodyConst { .. } | Edit::BodyNoise { .. } | Edit::ImplBodyConst { .. })
    }
    pub fn pkg(&self) -> usize {
        match self {
            Edit::BodyConst { p, .. }
            | Edit::BodyNoise { p, .. }
            | Edit::ImplBodyConst { p, .. }
            | Edit::AddFn { p }
            | Edit::AddParam { p, .. }
            | Edit::AddField { p, .. }
            | Edit::AddVariant { p, .. }
            | Edit::AddStruct { p }
            | Edit::AddEnum { p }
            | Edit::AddTrait { p }
            | Edit::AddTraitMethod { p, .. }
            | Edit::AddImpl { p }
            | Edit::AddInherent { p, .. }
            | Edit::RenameFn { p, .. }
            | Edit::RenameField { p, .. }
            | Edit::AddDerive { p, .. }
            | Edit::SwapVariants { p, .. }
            | Edit::SwapFields { p, .. } => *p,
        }
    }
}

fn map_expr(e: &mut Expr, f: &mut dyn FnMut(&mut Expr)) {
    match e {
        Expr::Add(a, b) | Expr::Sub(a, b) | Expr::Mul(a, b) | Expr::Concat(a, b) => {
            map_expr(a, f);
            map_expr(b, f);
        }
        Expr::IntToStr(a) | Expr::Field(a, _, _) | Expr::ToString(a) => map_expr(a, f),
        Expr::Call(_, _, xs) | Expr::MkStruct(_, _, xs) | Expr::MkEnum(_, _, _, xs) => {
            for x in xs.iter_mut() {
                map_expr(x, f);
            }
        }
        Expr::Match(s, _, arms, _) => {
            map_expr(s, f);
            for x in arms.iter_mut() {
                map_expr(x, f);
            }
        }
        Expr::If(a, b, c, d) => {
            map_expr(a, f);
            map_expr(b, f);
            map_expr(c, f);
            map_expr(d, f);
        }
        Expr::TraitCall(_, _, r, _) | Expr::Inherent(_, _, r) => map_expr(r, f),
        Expr::MkClosure(b) | Expr::GenField(b) | Expr::MkGen(_, _, b) | Expr::Nap(_, b) => map_expr(b, f),
        Expr::Apply(g, a) | Expr::LetApply(g, a, _) => {
            map_expr(g, f);
            map_expr(a, f);
        }
        Expr::Lit(_) | Expr::StrLit(_) | Expr::Var(_) | Expr::BoundVar | Expr::FloatStr(_) => {}
    }
    f(e);
}

impl Project {
    fn for_all_exprs(&mut self, f: &mut dyn FnMut(&mut Expr)) {
        for pk in self.pkgs.iter_mut() {
            for func in pk.fns.iter_mut() {
                map_expr(&mut func.body, f);
            }
            for im in pk.impls.iter_mut() {
                for b in im.bodies.iter_mut() {
                    map_expr(b, f);
                }
            }
            for inh in pk.inherents.iter_mut() {
                map_expr(&mut inh.body, f);
            }
        }
        for e in self.main_prints.iter_mut() {
            map_expr(e, f);
        }
    }

    /// Pick a random applicable edit.
    pub fn random_edit(&self, p: &mut Prng, body_only: bool) -> Option<Edit> {
        for _ in 0..20 {
            let pi = p.usize(self.pkgs.len());
            let pk = &self.pkgs[pi];
            let e = if body_only {
                match p.below(3) {
                    0 if !pk.fns.is_empty() => Edit::BodyConst { p: pi, f: p.usize(pk.fns.len()), delta: 1 + p.below(5) as i32 },
                    1 if !pk.fns.is_empty() => Edit::BodyNoise { p: pi, f: p.usize(pk.fns.len()) },
                    2 if !pk.impls.is_empty() => Edit::ImplBodyConst { p: pi, i: p.usize(pk.impls.len()), delta: 1 + p.below(5) as i32 },
                    _ => continue,
                }
            } else {
                match p.below(15) {
                    13 if !pk.enums.is_empty() => {
                        let e = p.usize(pk.enums.len());
                        if pk.enums[e].variants.len() < 2 { continue }
                        Edit::SwapVariants { p: pi, e }
                    }
                    14 if !pk.structs.is_empty() => {
                        let s = p.usize(pk.structs.len());
                        if pk.structs[s].fields.len() < 2 { continue }
                        Edit::SwapFields { p: pi, s }
                    }
                    0 => Edit::AddFn { p: pi },
                    1 if !pk.fns.is_empty() => {
                        let f = p.usize(pk.fns.len());
                        if pk.fns[f].bound.is_some() { continue }
                        Edit::AddParam { p: pi, f }
                    }
                    2 if !pk.structs.is_empty() => {
                        let s = p.usize(pk.structs.len());
                        if pk.structs[s].fields.len() >= 6 { continue }
                        Edit::AddField { p: pi, s }
                    }
                    3 if !pk.enums.is_empty() => Edit::AddVariant { p: pi, e: p.usize(pk.enums.len()) },
                    4 => Edit::AddStruct { p: pi },
                    5 => Edit::AddEnum { p: pi },
                    6 => Edit::AddTrait { p: pi },
                    7 if !pk.traits.is_empty() => Edit::AddTraitMethod { p: pi, t: p.usize(pk.traits.len()) },
                    8 => Edit::AddImpl { p: pi },
                    9 if !pk.structs.is_empty() => Edit::AddInherent { p: pi, s: p.usize(pk.structs.len()) },
                    10 if !pk.fns.is_empty() => Edit::RenameFn { p: pi, f: p.usize(pk.fns.len()) },
                    11 if !pk.structs.is_empty() => {
                        let s = p.usize(pk.structs.len());
                        if pk.structs[s].fields.is_empty() { continue }
                        Edit::RenameField { p: pi, s }
                    }
                    12 if !pk.structs.is_empty() => {
                        let s = p.usize(pk.structs.len());
                        if pk.structs[s].derive_tostring { continue }
                        Edit::AddDerive { p: pi, s }
                    }
                    _ => continue,
                }
            };
            return Some(e);
        }
        None
    }

    /// Apply an edit, keeping the whole project well-typed. Returns the set of packages whose
    /// *sources* changed (the edited package plus dependents that had to adapt).
    pub fn apply_edit(&mut self, e: &Edit, uniq: u32) -> Vec<usize> {
        let before: Vec<Files> = (0..self.pkgs.len()).map(|i| self.render_pkg(i)).collect();
        match e.clone() {
            Edit::BodyConst { p, f, delta } => {
                let func = &mut self.pkgs[p].fns[f];
                if func.bound.is_some() {
                    if let Expr::Add(_, k) = &mut func.body {
                        if let Expr::Lit(v) = **k {
                            **k = Expr::Lit(v.wrapping_add(delta));
                        }
                    }
                } else {
                    let body = std::mem::replace(&mut func.body, Expr::Lit(0));
                    func.body = match func.ret {
                        Ty::Int => Expr::Add(Box::new(body), Box::new(Expr::Lit(delta))),
                        Ty::Str => Expr::Concat(Box::new(body), Box::new(Expr::StrLit(format!("e{delta}")))),
                        _ => {
                            func.noise += 1;
                            body
                        }
                    };
                }
            }
            Edit::BodyNoise { p, f } => {
                self.pkgs[p].fns[f].noise += 1;
            }
            Edit::ImplBodyConst { p, i, delta } => {
                let tr = self.pkgs[p].impls[i].tr;
                let rt = self.pkgs[tr.0].traits[tr.1].methods[0].1.clone();
                let b = &mut self.pkgs[p].impls[i].bodies[0];
                let body = std::mem::replace(b, Expr::Lit(0));
                *b = match rt {
                    Ty::Int => Expr::Add(Box::new(body), Box::new(Expr::Lit(delta))),
                    _ => Expr::Concat(Box::new(body), Box::new(Expr::StrLit(format!("e{delta}")))),
                };
            }
            Edit::AddFn { p } => {
                self.pkgs[p].fns.push(FnDef {
                    name: format!("added_fn{uniq}"),
                    params: vec![("a0".to_string(), Ty::Int)],
                    ret: Ty::Int,
                    body: Expr::Add(Box::new(Expr::Var("a0".into())), Box::new(Expr::Lit(uniq as i32))),
                    bound: None,
                    noise: 0,
                });
            }
            Edit::AddParam { p, f } => {
                let n = self.pkgs[p].fns[f].params.len();
                self.pkgs[p].fns[f].params.push((format!("extra{n}_{uniq}"), Ty::Int));
                self.for_all_exprs(&mut |x| {
                    if let Expr::Call(cp, cf, args) = x {
                        if *cp == p && *cf == f {
                            args.push(Expr::Lit(uniq as i32 % 7));
                        }
                    }
                });
            }
            Edit::AddField { p, s } => {
                self.pkgs[p].structs[s].fields.push(format!("w{uniq}"));
                self.for_all_exprs(&mut |x| {
                    if let Expr::MkStruct(sp, si, fields) = x {
                        if *sp == p && *si == s {
                            fields.push(Expr::Lit(uniq as i32 % 5));
                        }
                    }
                });
            }
            Edit::AddVariant { p, e } => {
                self.pkgs[p].enums[e].variants.push((format!("V{uniq}"), 0));
                self.for_all_exprs(&mut |x| {
                    if let Expr::Match(_, (ep, ei), arms, _) = x {
                        if *ep == p && *ei == e {
                            arms.push(Expr::Lit(uniq as i32));
                        }
                    }
                });
            }
            Edit::AddStruct { p } => {
                self.pkgs[p].structs.push(StructDef {
                    name: format!("AddedS{uniq}"),
                    fields: vec!["x".to_string()],
                    derive_tostring: false,
                });
            }
            Edit::AddEnum { p } => {
                self.pkgs[p].enums.push(EnumDef {
                    name: format!("AddedE{uniq}"),
                    variants: vec![(format!("Q{uniq}"), 0), (format!("R{uniq}"), 1)],
                });
            }
            Edit::AddTrait { p } => {
                self.pkgs[p].traits.push(TraitDef {
                    name: format!("AddedT{uniq}"),
                    methods: vec![(format!("am{uniq}"), Ty::Int)],
                });
            }
            Edit::AddTraitMethod { p, t } => {
                self.pkgs[p].traits[t].methods.push((format!("xm{uniq}"), Ty::Int));
                for pk in self.pkgs.iter_mut() {
                    for im in pk.impls.iter_mut() {
                        if im.tr == (p, t) {
                            im.bodies.push(Expr::Lit(uniq as i32));
                        }
                    }
                }
            }
            Edit::AddImpl { p } => {
                // a fresh local struct implementing a visible trait: never conflicts
                let mut vis = vec![p];
                vis.extend(self.pkgs[p].imports.iter().copied());
                let mut trs = Vec::new();
                for &tp in &vis {
                    for ti in 0..self.pkgs[tp].traits.len() {
                        trs.push((tp, ti));
                    }
                }
                if trs.is_empty() {
                    self.pkgs[p].traits.push(TraitDef {
                        name: format!("AddedT{uniq}"),
                        methods: vec![(format!("am{uniq}"), Ty::Int)],
                    });
                    trs.push((p, self.pkgs[p].traits.len() - 1));
                }
                let tr = trs[uniq as usize % trs.len()];
                self.pkgs[p].structs.push(StructDef {
                    name: format!("ImplS{uniq}"),
                    fields: vec!["x".to_string()],
                    derive_tostring: false,
                });
                let si = self.pkgs[p].structs.len() - 1;
                let bodies = self.pkgs[tr.0].traits[tr.1]
                    .methods
                    .iter()
                    .map(|(_, rt)| match rt {
                        Ty::Int => Expr::Lit(uniq as i32),
                        _ => Expr::StrLit(format!("i{uniq}")),
                    })
                    .collect();
                self.pkgs[p].impls.push(ImplDef { tr, st: (p, si), bodies });
            }
            Edit::AddInherent { p, s } => {
                self.pkgs[p].inherents.push(InherentDef {
                    st: s,
                    name: format!("added_im{uniq}"),
                    body: Expr::Lit(uniq as i32),
                });
            }
            Edit::RenameFn { p, f } => {
                let old = self.pkgs[p].fns[f].name.clone();
                self.pkgs[p].fns[f].name = format!("{old}_r{uniq}");
            }
            Edit::RenameField { p, s } => {
                let old = self.pkgs[p].structs[s].fields[0].clone();
                let new = format!("{old}r{uniq}");
                self.pkgs[p].structs[s].fields[0] = new.clone();
                self.for_all_exprs(&mut |x| {
                    if let Expr::Field(_, f, (sp, si)) = x {
                        if *sp == p && *si == s && *f == old {
                            *f = new.clone();
                        }
                    }
                });
            }
            Edit::AddDerive { p, s } => {
                self.pkgs[p].structs[s].derive_tostring = true;
            }
            Edit::SwapVariants { p, e } => {
                if self.pkgs[p].enums[e].variants.len() >= 2 {
                    self.pkgs[p].enums[e].variants.swap(0, 1);
                    self.for_all_exprs(&mut |x| match x {
                        Expr::MkEnum(ep, ei, v, _) if *ep == p && *ei == e => {
                            if *v == 0 {
                                *v = 1;
                            } else if *v == 1 {
                                *v = 0;
                            }
                        }
                        Expr::Match(_, (ep, ei), arms, _) if *ep == p && *ei == e => {
                            if arms.len() >= 2 {
                                arms.swap(0, 1);
                            }
                        }
                        _ => {}
                    });
                }
            }
            Edit::SwapFields { p, s } => {
                if self.pkgs[p].structs[s].fields.len() >= 2 {
                    self.pkgs[p].structs[s].fields.swap(0, 1);
                    self.for_all_exprs(&mut |x| {
                        if let Expr::MkStruct(sp, si, fields) = x {
                            if *sp == p && *si == s && fields.len() >= 2 {
                                fields.swap(0, 1);
                            }
                        }
                    });
                }
            }
        }
        let mut changed = Vec::new();
        for i in 0..self.pkgs.len() {
            if self.render_pkg(i) != before[i] {
                changed.push(i);
            }
        }
        changed
    }
}

#[cfg(test)]
mod tests {
    use super::*;
    #[test]
    fn deterministic() {
        let a = generate(&mut Prng::new(5), &GenCfg::swarm(&mut Prng::new(9)));
        let b = generate(&mut Prng::new(5), &GenCfg::swarm(&mut Prng::new(9)));
        assert_eq!(a.render(), b.render());
    }
}
