pub mod conc;
pub mod project;
pub mod variants;
