pub mod project;
pub mod variants;
