//! Generator of small concurrent goml programs for C09: `main` creates a few Ref cells, spawns
//! 0-3 activations with `go`, each activation runs a short sequence of effectful expressions
//! (prints, Ref updates, failing operations in operand / argument / branch / condition / discarded
//! positions), optionally signals completion; main optionally spin-waits and prints every cell.
//! Every print carries a unique tag so each output line is attributable to one source position.

use crate::prng::Prng;

pub struct ConcCfg {
    pub spawns: usize,
    pub depth: u32,
    pub stmts: usize,
    pub failing_ops: bool,
    pub wait: bool,
    pub nested_go: bool,
    pub sleep: bool,
}

impl ConcCfg {
    pub fn swarm(p: &mut Prng) -> ConcCfg {
        ConcCfg {
            spawns: p.usize(4),
            depth: 1 + p.below(3) as u32,
            stmts: 1 + p.usize(5),
            failing_ops: p.chance(1, 5),
            wait: p.chance(2, 3),
            nested_go: p.chance(1, 4),
            sleep: p.chance(1, 6),
        }
    }
}

struct G<'a> {
    p: &'a mut Prng,
    cfg: &'a ConcCfg,
    tag: u32,
    var: u32,
    cells: Vec<String>,
    /// int32 locals in scope
    ints: Vec<String>,
    /// closures (int32) -> int32 in scope
    closures: Vec<String>,
    out: String,
    spawned_signalling: usize,
    in_activation: bool,
    go_depth: u32,
}

impl<'a> G<'a> {
    fn t(&mut self) -> String {
        self.tag += 1;
        format!("t{}", self.tag)
    }
    fn fresh(&mut self, base: &str) -> String {
        self.var += 1;
        format!("{}{}", base, self.var)
    }
    fn cell(&mut self) -> String {
        let i = self.p.usize(self.cells.len());
        self.cells[i].clone()
    }

    fn int(&mut self, d: u32) -> String {
        let top = if d == 0 { 4 } else { 31 };
        for _ in 0..4 {
            match self.p.below(top) {
                0 => return format!("{}", self.p.range(0, 9)),
                1 => {
                    let t = self.t();
                    return format!("p(\"{}\", {})", t, self.p.range(0, 9));
                }
                2 => {
                    let c = self.cell();
                    return format!("ref_get({c})");
                }
                3 => {
                    if !self.ints.is_empty() {
                        let i = self.p.usize(self.ints.len());
                        return self.ints[i].clone();
                    }
                }
                4 | 5 => {
                    let a = self.int(d - 1);
                    let b = self.int(d - 1);
                    let op = ["+", "-", "*"][self.p.usize(3)];
                    return format!("({a} {op} {b})");
                }
                6 => {
                    let c = self.cell();
                    let a = self.int(d - 1);
                    return format!("bump({c}, {a})");
                }
                7 => {
                    let b = self.boolean(d - 1);
                    let x = self.int(d - 1);
                    let y = self.int(d - 1);
                    return format!("(if {b} {{ {x} }} else {{ {y} }})");
                }
                8 => {
                    let s = self.int(d - 1);
                    let x = self.int(d - 1);
                    let y = self.int(d - 1);
                    let z = self.int(d - 1);
                    return format!("(match {s} {{ 0 => {x}, 1 => {y}, _ => {z} }})");
                }
                9 => {
                    let a = self.int(d - 1);
                    let b = self.int(d - 1);
                    let c = self.int(d - 1);
                    return format!("add3({a}, {b}, {c})");
                }
                10 => {
                    if !self.closures.is_empty() {
                        let i = self.p.usize(self.closures.len());
                        let f = self.closures[i].clone();
                        let a = self.int(d - 1);
                        return format!("{f}({a})");
                    }
                }
                11 => {
                    if self.cfg.failing_ops {
                        if !self.ints.is_empty() && self.p.chance(1, 2) {
                            // division guarded by a value-position `if` (only the selected branch
                            // may be evaluated)
                            let v = self.ints[self.p.usize(self.ints.len())].clone();
                            let n = self.ints[self.p.usize(self.ints.len())].clone();
                            let k = self.p.range(0, 5);
                            return if self.p.chance(1, 2) {
                                format!("(if ({v} == 0) {{ {k} }} else {{ ({n} / {v}) }})")
                            } else {
                                format!("(if ({v} != 0) {{ ({n} / {v}) }} else {{ {k} }})")
                            };
                        }
                        let a = self.int(d - 1);
                        let b = self.int(d - 1);
                        return format!("({a} / {b})");
                    }
                }
                12 => {
                    let a = self.int(d - 1);
                    let b = self.int(d - 1);
                    let pick = if self.p.chance(1, 2) { "x" } else { "y" };
                    return format!("(Pt {{ x: {a}, y: {b} }}).{pick}");
                }
                13 => {
                    let a = self.int(d - 1);
                    let b = self.int(d - 1);
                    let c = self.int(d - 1);
                    let v = self.fresh("ov");
                    if self.p.chance(1, 2) {
                        return format!("(match Opt::Som({a}) {{ Opt::Som({v}) => ({v} + {b}), Opt::Non => {c} }})");
                    }
                    return format!("(match Opt::Non {{ Opt::Som({v}) => ({v} + {b}), Opt::Non => {c} }})");
                }
                14 => {
                    let a = self.int(d - 1);
                    let b = self.int(d - 1);
                    let (m0, m1) = (self.fresh("ma"), self.fresh("mb"));
                    return format!("(match ({a}, {b}) {{ ({m0}, {m1}) => ({m0} - {m1}) }})");
                }
                15 => {
                    let st = self.string(d - 1);
                    return format!("string_len({st})");
                }
                16 => {
                    // generic function instantiated at int32 (monomorphisation keeps the effect)
                    let t = self.t();
                    let a = self.int(d - 1);
                    return format!("idg(\"{t}\", {a})");
                }
                17 => {
                    let c = self.cell();
                    return format!("rec({}, {c})", self.p.range(0, 3));
                }
                18 => {
                    let a = self.int(d - 1);
                    let b = self.int(d - 1);
                    let e = self.int(d - 1);
                    return match self.p.below(3) {
                        0 => format!("Pt::addx(Pt {{ x: {a}, y: {b} }}, {e})"),
                        1 => format!("(Pt {{ x: {a}, y: {b} }}).addx({e})"),
                        _ => format!("Cnt::cnt(Pt {{ x: {a}, y: {b} }}, {e})"),
                    };
                }
                19 => {
                    let a = self.int(d - 1);
                    let b = self.int(d - 1);
                    let idx = if self.cfg.failing_ops && self.p.chance(1, 3) { self.int(d - 1) } else { format!("{}", self.p.range(0, 1)) };
                    return format!("vec_get(vec_push(vec_push(vec_new(), {a}), {b}), {idx})");
                }
                20 => {
                    let a = self.int(d - 1);
                    return format!("vec_len(vec_push(vec_new(), {a}))");
                }
                21 => {
                    // closure capturing a Ref cell, called twice
                    let c = self.cell();
                    let a = self.int(d - 1);
                    let b = self.int(d - 1);
                    let cl = self.fresh("cl");
                    return format!("(match (|w: int32| bump({c}, w)) {{ {cl} => ({cl}({a}) + {cl}({b})) }})");
                }
                22 => {
                    let st = self.string(d - 1);
                    let a = self.int(d - 1);
                    let b = self.int(d - 1);
                    return format!("(match {st} {{ \"a\" => {a}, _ => {b} }})");
                }
                23 => {
                    // bait for constant folding: the effectful operand must survive
                    let a = self.int(d - 1);
                    return match self.p.below(5) {
                        0 => format!("({a} * 0)"),
                        1 => format!("(0 * {a})"),
                        2 => format!("({a} + 0)"),
                        3 => format!("({a} - 0)"),
                        _ => format!("(0 - {a})"),
                    };
                }
                24 => {
                    let a = self.int(d - 1);
                    let b = self.int(d - 1);
                    return if self.p.chance(1, 2) {
                        format!("(if true {{ {a} }} else {{ {b} }})")
                    } else {
                        format!("(if false {{ {a} }} else {{ {b} }})")
                    };
                }
                26 => {
                    // projection straight from a tuple literal: every component is evaluated
                    let a = self.int(d - 1);
                    let b = self.int(d - 1);
                    if self.p.chance(1, 3) {
                        let c = self.int(d - 1);
                        return format!("({a}, {b}, {c}).{}", self.p.below(3));
                    }
                    return format!("({a}, {b}).{}", self.p.below(2));
                }
                28 => {
                    // the callee is itself an effectful expression: it is evaluated before the
                    // arguments (call of a call result)
                    let a = self.int(d - 1);
                    let b = self.int(d - 1);
                    return format!("choose({a})({b})");
                }
                29 => {
                    // callee taken out of an array of functions by an effectful index
                    let t = self.t();
                    let i = if self.cfg.failing_ops && self.p.chance(1, 4) { self.int(d - 1) } else { format!("p(\"{t}\", {})", self.p.range(0, 1)) };
                    let b = self.int(d - 1);
                    return format!("array_get([fa, fb], {i})({b})");
                }
                30 => {
                    // function value bound once, applied twice
                    let a = self.int(d - 1);
                    let b = self.int(d - 1);
                    let c = self.int(d - 1);
                    let cf = self.fresh("cf");
                    return format!("(match choose({a}) {{ {cf} => ({cf}({b}) - {cf}({c})) }})");
                }
                25 => {
                    let st = self.string(d - 1);
                    let idx = if self.cfg.failing_ops && self.p.chance(1, 3) { self.int(d - 1) } else { "0".to_string() };
                    return format!("string_len(string_get(({st} + \"k\"), {idx}))");
                }
                _ => {
                    let a = self.int(d - 1);
                    let b = self.int(d - 1);
                    let c = self.int(d - 1);
                    let idx = if self.cfg.failing_ops && self.p.chance(1, 3) {
                        self.int(d - 1)
                    } else {
                        format!("{}", self.p.range(0, 2))
                    };
                    return format!("array_get([{a}, {b}, {c}], {idx})");
                }
            }
        }
        format!("{}", self.p.range(0, 9))
    }

    fn string(&mut self, d: u32) -> String {
        let top = if d == 0 { 2 } else { 8 };
        match self.p.below(top) {
            5 => {
                // user functions and methods named like runtime helpers (`*_to_string`,
                // `to_string`): they have effects, whatever their names suggest
                let t = self.t();
                let a = self.int(d - 1);
                format!("pt_to_string(\"{t}\", {a})")
            }
            6 => {
                let a = self.int(d - 1);
                let b = self.int(d - 1);
                if self.p.chance(1, 2) {
                    format!("(Pt {{ x: {a}, y: {b} }}).to_string()")
                } else {
                    format!("Pt::to_string(Pt {{ x: {a}, y: {b} }})")
                }
            }
            7 => {
                let a = self.int(d - 1);
                format!("Lbl::to_string(Qt {{ z: {a} }})")
            }
            0 => format!("\"{}\"", ["a", "b", "xy", ""][self.p.usize(4)]),
            1 => {
                let t = self.t();
                format!("ps(\"{t}\", \"{}\")", ["a", "q"][self.p.usize(2)])
            }
            2 => {
                let a = self.string(d - 1);
                let b = self.string(d - 1);
                format!("({a} + {b})")
            }
            3 => {
                let a = self.int(d - 1);
                format!("int32_to_string({a})")
            }
            _ => {
                let t = self.t();
                let a = self.string(d - 1);
                format!("idg(\"{t}\", {a})")
            }
        }
    }

    fn boolean(&mut self, d: u32) -> String {
        let top = if d == 0 { 2 } else { 8 };
        if self.cfg.failing_ops && d > 0 && !self.ints.is_empty() && self.p.chance(1, 4) {
            // a guard whose right operand is call-free but can fail: `v != 0 && n / v > k`
            let v = self.ints[self.p.usize(self.ints.len())].clone();
            let n = self.ints[self.p.usize(self.ints.len())].clone();
            let k = self.p.range(0, 5);
            return if self.p.chance(1, 2) {
                format!("(({v} != 0) && (({n} / {v}) > {k}))")
            } else {
                format!("(({v} == 0) || (({n} / {v}) > {k}))")
            };
        }
        match self.p.below(top) {
            0 => {
                let t = self.t();
                format!("pb(\"{}\", {})", t, if self.p.chance(1, 2) { "true" } else { "false" })
            }
            1 => {
                let a = self.int(0);
                let b = self.int(0);
                format!("({a} < {b})")
            }
            2 => {
                let a = self.boolean(d - 1);
                let b = self.boolean(d - 1);
                format!("({a} && {b})")
            }
            3 => {
                let a = self.boolean(d - 1);
                let b = self.boolean(d - 1);
                format!("({a} || {b})")
            }
            4 => {
                let a = self.boolean(d - 1);
                format!("(!{a})")
            }
            5 => {
                let a = self.int(d - 1);
                let b = self.int(d - 1);
                format!("({a} == {b})")
            }
            6 => {
                // constant operands: the other operand is evaluated (or not) as written
                let a = self.boolean(d - 1);
                match self.p.below(6) {
                    0 => format!("({a} && false)"),
                    1 => format!("(false && {a})"),
                    2 => format!("({a} || true)"),
                    3 => format!("(true || {a})"),
                    4 => format!("(true && {a})"),
                    _ => format!("(false || {a})"),
                }
            }
            _ => {
                let a = self.int(d - 1);
                let b = self.int(d - 1);
                let op = ["<=", ">", ">=", "!=", "<"][self.p.usize(5)];
                format!("({a} {op} {b})")
            }
        }
    }

    fn stmts(&mut self, n: usize, ind: usize) -> String {
        let pad = "    ".repeat(ind);
        let mut s = String::new();
        let ints_mark = self.ints.len();
        let clos_mark = self.closures.len();
        for _ in 0..n {
            let d = self.cfg.depth;
            match self.p.below(21) {
                19 => {
                    let st = self.string(d);
                    match self.p.below(3) {
                        0 => s.push_str(&format!("{pad}let _ = {st};\n")),
                        1 => {
                            let u = self.fresh("us");
                            s.push_str(&format!("{pad}let {u} = {st};\n"));
                        }
                        _ => s.push_str(&format!("{pad}{st};\n")),
                    }
                }
                20 => {
                    let st = self.string(d);
                    s.push_str(&format!("{pad}let _ = string_len({st});\n"));
                }
                12 => {
                    // destructuring of an effectful tuple literal
                    let a = self.int(d);
                    let b = self.int(d);
                    let (va, vb) = (self.fresh("ta"), self.fresh("tb"));
                    if self.p.chance(1, 3) {
                        let c = self.int(d);
                        let vc = self.fresh("tc");
                        s.push_str(&format!("{pad}let ({va}, {vb}, {vc}) = ({a}, {b}, {c});\n"));
                        self.ints.push(vc);
                    } else {
                        s.push_str(&format!("{pad}let ({va}, {vb}) = ({a}, {b});\n"));
                    }
                    self.ints.push(va);
                    self.ints.push(vb);
                }
                13 => {
                    let a = self.int(d);
                    let b = self.int(d);
                    let (va, vb) = (self.fresh("sx"), self.fresh("sy"));
                    s.push_str(&format!("{pad}let Pt {{ x: {va}, y: {vb} }} = Pt {{ x: {a}, y: {b} }};\n"));
                    self.ints.push(va);
                    self.ints.push(vb);
                }
                14 => {
                    // dynamically dispatched effect in statement position
                    let e = self.int(d);
                    s.push_str(&format!("{pad}Eff::emit(dv, {e});\n"));
                }
                16 => {
                    let st = self.string(d);
                    s.push_str(&format!("{pad}string_println({st});\n"));
                }
                17 => {
                    // rebinding of one name: closures created before capture the old value
                    let e = self.int(d);
                    s.push_str(&format!("{pad}let sh = {e};\n"));
                    if !self.ints.iter().any(|x| x == "sh") {
                        self.ints.push("sh".to_string());
                    }
                    if self.p.chance(1, 2) {
                        let f = self.fresh("fs");
                        s.push_str(&format!("{pad}let {f} = |q: int32| (q + sh);\n"));
                        self.closures.push(f);
                    }
                }
                15 if self.cfg.failing_ops => {
                    // division at another integer width whose result is discarded
                    let ty = ["int8", "int16", "int64", "uint8", "uint16", "uint32", "uint64"][self.p.usize(7)];
                    let (va, vz) = (self.fresh("wa"), self.fresh("wz"));
                    let zero = if self.p.chance(2, 3) { 0 } else { 3 };
                    let suf = ty.replace("uint", "u").replace("int", "i");
                    s.push_str(&format!("{pad}let {va}: {ty} = 9{suf};\n{pad}let {vz}: {ty} = {zero}{suf};\n"));
                    match self.p.below(3) {
                        0 => s.push_str(&format!("{pad}let _ = {va} / {vz};\n")),
                        1 => {
                            let u = self.fresh("wu");
                            s.push_str(&format!("{pad}let {u} = {va} / {vz};\n"));
                        }
                        _ => s.push_str(&format!("{pad}{va} / {vz};\n")),
                    }
                }
                0 => {
                    let e = self.int(d);
                    s.push_str(&format!("{pad}let _ = {e};\n"));
                }
                1 => {
                    let e = self.int(d);
                    let v = self.fresh("x");
                    s.push_str(&format!("{pad}let {v} = {e};\n"));
                    self.ints.push(v);
                }
                2 | 3 => {
                    let c = self.cell();
                    let e = self.int(d);
                    s.push_str(&format!("{pad}ref_set({c}, {e});\n"));
                }
                4 => {
                    let e = self.int(d);
                    s.push_str(&format!("{pad}string_println(int32_to_string({e}));\n"));
                }
                5 => {
                    let b = self.boolean(d);
                    let x = { let n = 1 + self.p.usize(2); self.stmts(n, ind + 1) };
                    let y = { let n = 1 + self.p.usize(2); self.stmts(n, ind + 1) };
                    let t1 = if self.p.chance(1, 3) { let e = self.int(1); format!("Eff::emit(dv, {e})") } else { "()".to_string() };
                    let t2 = if self.p.chance(1, 3) { let e = self.int(1); format!("Eff::emit(dv, {e})") } else { "()".to_string() };
                    s.push_str(&format!("{pad}if {b} {{\n{x}{pad}    {t1}\n{pad}}} else {{\n{y}{pad}    {t2}\n{pad}}};\n"));
                }
                6 => {
                    // bounded loop on a private counter cell; the condition has an effect
                    let k = self.fresh("k");
                    let bound = 1 + self.p.usize(3);
                    let t = self.t();
                    let body = { let n = 1 + self.p.usize(2); self.stmts(n, ind + 1) };
                    s.push_str(&format!("{pad}let {k} = ref(0);\n"));
                    let tail = if self.cfg.nested_go && self.go_depth < 2 && self.p.chance(1, 3) {
                        // `go` as the value of the loop body / of a branch in tail position
                        self.go_depth += 1;
                        let gb = { let n = 1 + self.p.usize(2); self.stmts(n, ind + 2) };
                        self.go_depth -= 1;
                        if self.p.chance(1, 2) {
                            format!(";\n{pad}    go || {{\n{gb}{pad}        ()\n{pad}    }}")
                        } else {
                            format!(";\n{pad}    if ref_get({k}) < 1 {{ go || {{\n{gb}{pad}        ()\n{pad}    }} }} else {{ () }}")
                        }
                    } else if self.p.chance(1, 2) {
                        let e = self.int(1);
                        match self.p.below(3) {
                            0 => format!(";\n{pad}    Eff::emit(dv, {e})"),
                            1 => format!(";\n{pad}    if ref_get({k}) < 2 {{ Eff::emit(dv, {e}) }} else {{ () }}"),
                            _ => format!(";\n{pad}    match ref_get({k}) {{ 1 => Eff::emit(dv, {e}), _ => () }}"),
                        }
                    } else {
                        String::new()
                    };
                    // the condition comes in several shapes (comparison, match with literal
                    // arms, if, &&): each is re-evaluated before every iteration and ends the loop
                    let cond = match self.p.below(5) {
                        0 => format!("(match p(\"{t}\", ref_get({k})) {{ 0 => true, 1 => {}, _ => false }})", if bound >= 2 { "true" } else { "false" }),
                        1 => format!("(if p(\"{t}\", ref_get({k})) < {bound} {{ true }} else {{ false }})"),
                        2 => format!("((ref_get({k}) < {bound}) && pb(\"{t}\", true))"),
                        _ => format!("p(\"{t}\", ref_get({k})) < {bound}"),
                    };
                    s.push_str(&format!(
                        "{pad}while {cond} {{\n{body}{pad}    ref_set({k}, ref_get({k}) + 1){tail}\n{pad}}};\n"
                    ));
                }
                7 => {
                    let f = self.fresh("f");
                    let saved = std::mem::take(&mut self.ints);
                    self.ints = saved.clone();
                    self.ints.push("q".to_string());
                    let e = self.int(d.min(2));
                    self.ints = saved;
                    s.push_str(&format!("{pad}let {f} = |q: int32| {e};\n"));
                    self.closures.push(f);
                }
                8 => {
                    let e = self.int(d);
                    s.push_str(&format!("{pad}{e};\n"));
                }
                9 if self.cfg.nested_go && self.go_depth < 2 => {
                    self.go_depth += 1;
                    let body = { let n = 1 + self.p.usize(2); self.stmts(n, ind + 1) };
                    self.go_depth -= 1;
                    s.push_str(&format!("{pad}go || {{\n{body}{pad}    ()\n{pad}}};\n"));
                }
                11 if self.cfg.nested_go || self.p.chance(1, 4) => {
                    // `go` applied to the result of a call: the call (and its arguments) belong
                    // to the spawner, only the returned closure runs concurrently
                    let c = self.cell();
                    let e = self.int(d.min(2));
                    s.push_str(&format!("{pad}go mkc({c}, {e});\n"));
                }
                10 if self.cfg.sleep => {
                    s.push_str(&format!("{pad}sleep(duration({}));\n", 100 * (1 + self.p.below(20))));
                }
                _ => {
                    let b = self.boolean(d);
                    s.push_str(&format!("{pad}let _ = {b};\n"));
                }
            }
        }
        self.ints.truncate(ints_mark);
        self.closures.truncate(clos_mark);
        s
    }
}

pub fn generate(p: &mut Prng, cfg: &ConcCfg) -> String {
    let ncells = 1 + p.usize(3);
    let mut g = G {
        p,
        cfg,
        tag: 0,
        var: 0,
        cells: (0..ncells).map(|i| format!("r{i}")).collect(),
        ints: Vec::new(),
        closures: Vec::new(),
        out: String::new(),
        spawned_signalling: 0,
        in_activation: false,
        go_depth: 0,
    };
    let mut s = String::new();
    if cfg.sleep {
        s.push_str("extern type Duration\n\nextern \"go\" \"time\" sleep(d: Duration) -> unit\nextern \"go\" \"time\" duration(nanos: int32) -> Duration\n\n");
    }
    s.push_str("struct Pt {\n    x: int32,\n    y: int32,\n}\n\nenum Opt {\n    Non,\n    Som(int32),\n}\n\n");
    s.push_str("fn p(tag: string, v: int32) -> int32 {\n    string_println(tag);\n    v\n}\n\n");
    s.push_str("fn pb(tag: string, v: bool) -> bool {\n    string_println(tag);\n    v\n}\n\n");
    s.push_str("fn bump(r: Ref[int32], d: int32) -> int32 {\n    ref_set(r, ref_get(r) + d);\n    ref_get(r)\n}\n\n");
    s.push_str("fn add3(a: int32, b: int32, c: int32) -> int32 {\n    a + b * c\n}\n\n");
    s.push_str("fn fa(v: int32) -> int32 {\n    string_println(\"fa\");\n    v + 1\n}\n\nfn fb(v: int32) -> int32 {\n    string_println(\"fb\");\n    v + 2\n}\n\n");
    s.push_str("fn choose(n: int32) -> (int32) -> int32 {\n    string_println(\"ch\");\n    if n < 1 {\n        fa\n    } else {\n        fb\n    }\n}\n\n");
    s.push_str("fn mkc(r: Ref[int32], v: int32) -> () -> unit {\n    string_println(\"mk\");\n    || {\n        ref_set(r, ref_get(r) + v);\n        string_println(\"mc\")\n    }\n}\n\n");
    s.push_str("fn ps(tag: string, v: string) -> string {\n    string_println(tag);\n    v\n}\n\n");
    s.push_str("fn idg[T](tag: string, x: T) -> T {\n    string_println(tag);\n    x\n}\n\n");
    s.push_str("fn rec(n: int32, r: Ref[int32]) -> int32 {\n    if n < 1 {\n        ref_get(r)\n    } else {\n        ref_set(r, ref_get(r) + n);\n        rec(n - 1, r)\n    }\n}\n\n");
    s.push_str("impl Pt {\n    fn addx(self: Pt, v: int32) -> int32 {\n        string_println(\"m\");\n        self.x + v\n    }\n    fn to_string(self: Pt) -> string {\n        string_println(\"ts\");\n        int32_to_string(self.x - self.y)\n    }\n}\n\n");
    s.push_str("fn pt_to_string(tag: string, v: int32) -> string {\n    string_println(tag);\n    int32_to_string(v)\n}\n\n");
    s.push_str("struct Qt {\n    z: int32,\n}\n\ntrait Lbl {\n    fn to_string(Self) -> string;\n}\n\nimpl Lbl for Qt {\n    fn to_string(self: Qt) -> string {\n        string_println(\"lb\");\n        int32_to_string(self.z)\n    }\n}\n\n");
    s.push_str("trait Cnt {\n    fn cnt(Self, int32) -> int32;\n}\n\nimpl Cnt for Pt {\n    fn cnt(self: Pt, v: int32) -> int32 {\n        string_println(\"c\");\n        self.y + v\n    }\n}\n\n");
    s.push_str("trait Eff {\n    fn emit(Self, int32) -> unit;\n}\n\nimpl Eff for Pt {\n    fn emit(self: Pt, v: int32) -> unit {\n        string_println(\"e\" + int32_to_string(self.x + v))\n    }\n}\n\n");
    s.push_str("fn main() -> unit {\n    let pv = Pt { x: 1, y: 2 };\n    let dv: dyn Eff = pv;\n    let zz = 0;\n    let nn = 7;\n");
    g.ints.push("zz".to_string());
    g.ints.push("nn".to_string());
    for c in g.cells.clone() {
        s.push_str(&format!("    let {c} = ref({});\n", g.p.range(0, 5)));
    }
    for i in 0..cfg.spawns {
        s.push_str(&format!("    let done{i} = ref(0);\n"));
    }
    let pre = { let n = g.p.usize(cfg.stmts + 1); g.stmts(n, 1) };
    s.push_str(&pre);
    let mut signalling = 0;
    for i in 0..cfg.spawns {
        g.in_activation = true;
        g.go_depth = 1;
        let body = { let n = 1 + g.p.usize(cfg.stmts); g.stmts(n, 2) };
        g.go_depth = 0;
        g.in_activation = false;
        let signal = format!("        ref_set(done{i}, 1)\n");
        match g.p.below(3) {
            0 => {
                // closure variable spawned (possibly twice)
                let name = format!("g{i}");
                s.push_str(&format!("    let {name} = || {{\n{body}{signal}    }};\n"));
                s.push_str(&format!("    go {name};\n"));
                signalling += 1;
                if g.p.chance(1, 3) {
                    s.push_str(&format!("    go {name};\n"));
                    signalling += 1;
                }
            }
            _ => {
                s.push_str(&format!("    go || {{\n{body}{signal}    }};\n"));
                signalling += 1;
            }
        }
        // the spawner continues with effects of its own
        let mid = { let n = g.p.usize(3); g.stmts(n, 1) };
        s.push_str(&mid);
    }
    g.spawned_signalling = signalling;
    if cfg.wait && signalling > 0 && !cfg.failing_ops {
        for i in 0..cfg.spawns {
            s.push_str(&format!("    while ref_get(done{i}) < 1 {{\n        ()\n    }};\n"));
        }
    }
    for c in g.cells.clone() {
        s.push_str(&format!("    string_println(int32_to_string(ref_get({c})));\n"));
    }
    s.push_str("    ()\n}\n");
    let _ = &g.out;
    s
}
