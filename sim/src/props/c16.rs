//! C16 — package isolation and trait coherence (configuration part).
//!
//! Generated package graphs on the sandbox; every illegal project contains exactly one
//! illegality (single-fault injection) next to a legal twin that differs only in that item, so
//! "rejected" can only be for that reason and no message text is read. Each project is compiled
//! whole-program and package-by-package under several discovery orders (entropy seeds x readdir
//! permutations x argument orders); the verdict must match the reference model and must not
//! depend on the order.

use crate::genp::project::{GenCfg, generate};
use crate::genp::variants::{ILLEGAL_KINDS, Illegal, inject};
use crate::harness::{self, Evidence, Opts, Tier, Violation};
use crate::ops::{self, Layout};
use crate::prng::{Prng, mix, purpose};
use crate::props::c13::{files_from_json, files_json};
use crate::world::{Exit, Files, ProcSpec, Sandbox, sha};
use serde_json::{Value, json};
use std::collections::BTreeMap;

pub const PROP: &str = "C16";

#[derive(Clone, Debug, PartialEq, serde::Serialize)]
pub struct Verdict {
    pub whole: String,      // accepted | rejected | panicked | hung
    pub whole_diags: Vec<String>,
    pub separate: String,   // accepted | rejected | panicked | hung
    pub separate_where: String,
}

/// Compile one project both ways under one discovery order.
pub fn verdict(sb: &Sandbox, files: &Files, cfg: (u64, u64, u64)) -> (Verdict, u64) {
    let (v, n, _) = verdict_over(sb, files, cfg, None);
    (v, n)
}

/// `store`: artifacts an earlier build left in the output directory (the separate pipeline then
/// rebuilds *in place*, as a user does after an edit). Returns the artifacts of this build too.
pub fn verdict_over(sb: &Sandbox, files: &Files, cfg: (u64, u64, u64), store: Option<&Files>) -> (Verdict, u64, Files) {
    sb.materialise(files);
    let (entropy, readdir, order) = cfg;
    let spec = ProcSpec { entropy, readdir, ..Default::default() };
    let (sum, _c, _) = ops::run_main(sb, &spec, false);
    let mut procs = 1u64;
    let whole = match sum.class.as_str() {
        "compiled" => "accepted",
        "compile-error" | "err" => "rejected",
        "panicked" => "panicked",
        "hung" => "hung",
        other => other,
    }
    .to_string();
    let mut whole_diags = sum.diagnostics.clone();
    if whole_diags.is_empty() && !sum.message.is_empty() {
        whole_diags.push(sum.message.clone());
    }
    // separate: dependency order if one exists, otherwise any order (a cyclic or incomplete
    // project has none; every order must fail)
    let mut layout = Layout::scan(files);
    let mut op = Prng::new(order);
    let topo = layout.topo(&mut op);
    let has_topo = topo.is_some();
    // for every second order the separate pipeline is handed the files of multi-file packages
    // under another spelling: copies that all have the same base name, each in a directory of
    // its own (`--input` takes any paths; what a file may name depends on its own imports, not
    // on how its path is spelled)
    if order % 2 == 1 {
        for pk in layout.pkgs.values_mut() {
            if pk.files.len() >= 2 {
                let mut renamed = Vec::new();
                for (i, f) in pk.files.iter().enumerate() {
                    if let Some(b) = files.get(f) {
                        let np = format!("zzalt/{}/{}/unit.gom", pk.name, (b'a' + i as u8) as char);
                        sb.write(&np, b);
                        renamed.push(np);
                    }
                }
                if renamed.len() == pk.files.len() {
                    pk.files = renamed;
                }
            }
        }
    }
    let build_order = topo.unwrap_or_else(|| {
        let mut names: Vec<String> = layout.pkgs.keys().cloned().collect();
        op.shuffle(&mut names);
        names
    });
    let mut ent = Prng::new(mix(&[entropy, readdir, 3]));
    if let Some(st) = store {
        for (k, v) in st {
            if k.starts_with("out/") && (k.ends_with(".interface") || k.ends_with(".core")) {
                sb.write(k, v);
            }
        }
    }
    let sep = ops::separate_build(sb, &layout, &build_order, &mut ent, &mut op, false);
    procs += build_order.len() as u64 + 1;
    // a directory that is not a package the layout scan could name (e.g. declared under another
    // name) still has to be compiled as the package its importers expect
    let separate = if sep.panicked.is_some() {
        "panicked"
    } else if sep.ok {
        "accepted"
    } else {
        "rejected"
    }
    .to_string();
    // without a dependency order (cycle, missing package) the build order is the simulator's
    // arbitrary choice, so *where* the separate build fails is not the compiler's nondeterminism
    // (nor is a message that quotes a path, when the paths were respelled)
    let separate_where = if has_topo && order % 2 == 0 { sep.failure.map(|(s, m)| format!("{s}: {m}")).unwrap_or_default() } else { String::new() };
    (Verdict { whole, whole_diags, separate, separate_where }, procs, sep.artifacts)
}

/// Artifact-store configurations of the separate pipeline, on the legal twin: after a complete
/// build, a dependent package P of D is rebuilt with two interface directories. When the
/// directory searched first holds a `D.interface` that declares another package (the interface
/// of some other package stored under D's name), the mismatching package declaration must be
/// reported; with the directories the other way round the genuine file is found first and the
/// build must succeed. Returns (class, description) of what went wrong, and the process count.
fn store_configs(sb: &Sandbox, files: &Files, cfg: (u64, u64, u64)) -> (Vec<(String, String)>, u64, bool) {
    let (entropy, _readdir, order) = cfg;
    let mut out = Vec::new();
    sb.materialise(files);
    let layout = Layout::scan(files);
    let mut op = Prng::new(order);
    let Some(topo) = layout.topo(&mut op) else { return (out, 0, false) };
    let mut ent = Prng::new(mix(&[entropy, 11]));
    let sep = ops::separate_build(sb, &layout, &topo, &mut ent, &mut op, false);
    let mut procs = topo.len() as u64 + 1;
    if !sep.ok {
        return (out, procs, false);
    }
    // a package somebody imports is left out of the link (the farther from Main the better):
    // "missing packages are reported as errors" holds for the last step of the separate pipeline too
    {
        let mut depth: BTreeMap<String, usize> = BTreeMap::new();
        depth.insert("Main".to_string(), 0);
        let mut frontier = vec!["Main".to_string()];
        while let Some(cur) = frontier.pop() {
            let dcur = depth[&cur];
            if let Some(pk) = layout.pkgs.get(&cur) {
                for d in &pk.imports {
                    if layout.pkgs.contains_key(d) && depth.get(d).map(|x| *x < dcur + 1).unwrap_or(true) && dcur < 16 {
                        depth.insert(d.clone(), dcur + 1);
                        frontier.push(d.clone());
                    }
                }
            }
        }
        let mut imported: Vec<(usize, String)> = depth.iter().filter(|(k, v)| **v > 0 && *k != "Main").map(|(k, v)| (*v, k.clone())).collect();
        imported.sort();
        if let Some((dist, gone)) = if op.chance(1, 2) { imported.last().cloned() } else if imported.is_empty() { None } else { Some(imported[op.usize(imported.len())].clone()) } {
            let cores: Vec<String> = topo.iter().filter(|p| **p != gone).map(|p| format!("out/{p}.core")).collect();
            let spec = ProcSpec { entropy: ent.next_u64(), readdir: ent.next_u64(), ..Default::default() };
            let r = ops::goml(sb, &spec, ops::link_args(sb, &cores, "out3/main.go", &mut op));
            procs += 1;
            match &r.exit {
                Exit::Ok => out.push(("missing-package-accepted-by-link".to_string(), format!("C16: `link` succeeds although the core of package {gone} ({dist} import(s) away from Main) is not among its inputs"))),
                Exit::Panicked(m) => out.push(("crash".to_string(), format!("C16: `link` without the core of package {gone} panics: {m}"))),
                _ => {}
            }
        }
    }
    // P imports D; X is any other package (its interface will pose as D's)
    let mut cands: Vec<(String, String, String)> = Vec::new();
    for (pn, pk) in &layout.pkgs {
        for d in &pk.imports {
            if d == "Builtin" || d == pn || !layout.pkgs.contains_key(d) {
                continue;
            }
            for x in layout.pkgs.keys() {
                if x != d {
                    cands.push((pn.clone(), d.clone(), x.clone()));
                }
            }
        }
    }
    if cands.is_empty() {
        return (out, procs, false);
    }
    let (pn, d, x) = cands[op.usize(cands.len())].clone();
    let Some(posing) = sb.read(&format!("out/{x}.interface")) else { return (out, procs, false) };
    sb.mkdir("vendor");
    sb.write(&format!("vendor/{d}.interface"), &posing);
    let pk = &layout.pkgs[&pn];
    let build = |dirs: [&str; 2], ent: &mut Prng| {
        let mut args = vec![ops::s("goml"), ops::s("build"), ops::s("--package"), pk.name.clone(), ops::s("--input")];
        args.extend(pk.files.iter().map(|f| sb.path(f)));
        for dd in dirs {
            args.push(ops::s("--interface-path"));
            args.push(sb.path(dd));
        }
        args.push(ops::s("--output"));
        args.push(sb.path(&format!("out2/{}", pk.name)));
        let spec = ProcSpec { entropy: ent.next_u64(), readdir: ent.next_u64(), ..Default::default() };
        ops::goml(sb, &spec, args)
    };
    let first = build(["vendor", "out"], &mut ent);
    let second = build(["out", "vendor"], &mut ent);
    procs += 2;
    match &first.exit {
        Exit::Ok => out.push(("misdeclared-interface-accepted".to_string(), format!("C16: `build` of {pn} succeeds although the interface directory searched first holds {d}.interface declaring package {x} (a later directory has the genuine file)"))),
        Exit::Panicked(m) => out.push(("crash".to_string(), format!("C16: `build` of {pn} panics on a {d}.interface that declares package {x}: {m}"))),
        _ => {}
    }
    match &second.exit {
        Exit::Ok => {}
        Exit::Panicked(m) => out.push(("crash".to_string(), format!("C16: `build` of {pn} panics with a stray {d}.interface in a later search directory: {m}"))),
        other => out.push(("legal-store-rejected".to_string(), format!("C16: `build` of {pn} fails although the genuine {d}.interface is found first on the interface path: {}", match other { Exit::Err(m) => sb.normalise(m).chars().take(200).collect::<String>(), o => o.class().to_string() }))),
    }
    (out, procs, true)
}

/// Verdicts of one project under two discovery orders agree (where the separate build fails is
/// compared only when both runs report it).
fn same_verdict(a: &Verdict, b: &Verdict) -> bool {
    a.whole == b.whole
        && a.whole_diags == b.whole_diags
        && a.separate == b.separate
        && (a.separate_where.is_empty() || b.separate_where.is_empty() || a.separate_where == b.separate_where)
}

fn with_plain_file(files: &Files) -> Files {
    let mut out = files.clone();
    // the first package directory (not the root) one of whose files imports something
    let mut dirs: Vec<String> = Vec::new();
    for (path, bytes) in files {
        if let Some(i) = path.rfind('/') {
            let text = String::from_utf8_lossy(bytes);
            if text.lines().any(|l| l.trim_start().starts_with("import ")) && !path[..i].contains('/') {
                dirs.push(path[..i].to_string());
            }
        }
    }
    dirs.sort();
    dirs.dedup();
    if let Some(dir) = dirs.first() {
        let name = format!("{dir}/zz_plain.gom");
        if !out.contains_key(&name) {
            out.insert(name, format!("package {dir}\n\nfn zz_plain_{}() -> int32 {{\n    1\n}}\n", dir.to_lowercase()).into_bytes());
        }
    }
    out
}

struct CaseResult {
    violations: Vec<Violation>,
    procs: u64,
    fingerprints: Vec<String>,
    kind: String,
    sample: Option<Value>,
    applicable: bool,
    digest: String,
    store_configs: u64,
    in_place: u64,
}

fn check_case(sb: &Sandbox, opts: &Opts, idx: usize, orders: usize, forced: Option<(Files, Files, String, Illegal)>) -> CaseResult {
    let mut p = Prng::derive(opts.seed, idx as u64, "c16-project");
    let mut cfg = GenCfg::swarm(&mut p);
    cfg.max_pkgs = cfg.max_pkgs.max(2);
    let proj = generate(&mut p, &cfg);
    let kind = ILLEGAL_KINDS[idx % ILLEGAL_KINDS.len()].clone();
    let mut r = CaseResult { violations: Vec::new(), procs: 0, fingerprints: Vec::new(), kind: format!("{kind:?}"), sample: None, applicable: false, digest: String::new(), store_configs: 0, in_place: 0 };
    let forced_given = forced.is_some();
    let (twin, bad, desc, kind) = match forced {
        Some(f) => f,
        None => match inject(&proj, &kind, &mut p) {
            Some((t, b, d)) => (t, b, d, kind),
            None => return r,
        },
    };
    r.applicable = true;
    // imports are per file: one package of every project gets one more file that imports nothing
    // (and needs nothing), so the files of that package have different import sets -- legal, and
    // no business of the other files
    let (twin, bad) = if forced_given { (twin, bad) } else { (with_plain_file(&twin), with_plain_file(&bad)) };
    let mk = |class: &str, pipeline: &str, what: String| Violation {
        property: PROP.into(),
        class: class.to_string(),
        key: json!({"class": class, "kind": format!("{kind:?}"), "pipeline": pipeline}),
        what,
        replay: json!({"kind": "c16", "illegal": kind, "class": class, "pipeline": pipeline, "description": desc, "twin": files_json(&twin), "bad": files_json(&bad)}),
    };
    let mut base_twin: Option<Verdict> = None;
    let mut base_bad: Option<Verdict> = None;
    for k in 0..orders {
        let c = (
            mix(&[opts.seed, idx as u64, k as u64, purpose("c16-entropy")]),
            mix(&[opts.seed, idx as u64, k as u64, purpose("c16-readdir")]),
            mix(&[opts.seed, idx as u64, k as u64, purpose("c16-order")]),
        );
        let (vt, n1, twin_store) = verdict_over(sb, &twin, c, None);
        // for every second order the illegal version is built over what the build of the legal
        // version left in the output directory (an edit introduced the illegality; the rebuild
        // happens in place): what is in the store must not make an illegal project acceptable
        let in_place = k % 2 == 1 && vt.separate == "accepted";
        let (vb, n2, _) = verdict_over(sb, &bad, c, if in_place { Some(&twin_store) } else { None });
        r.in_place += in_place as u64;
        r.procs += n1 + n2;
        r.digest = sha(format!("{}{:?}{:?}", r.digest, vt, vb).as_bytes());
        r.fingerprints.push(format!("{}:{}", &sha(serde_json::to_string(&files_json(&bad)).unwrap().as_bytes())[..12], k));
        // reference model: twin legal => accepted; bad => rejected, by both pipelines
        for (pipe, got) in [("whole", &vt.whole), ("separate", &vt.separate)] {
            if got == "panicked" || got == "hung" {
                r.violations.push(mk("crash", pipe, format!("C16: legal project (twin of: {desc}) makes the {pipe} pipeline {got}")));
            } else if got != "accepted" {
                r.violations.push(mk(
                    "legal-project-rejected",
                    pipe,
                    format!("C16: legal project (twin of: {desc}) is rejected by the {pipe} pipeline: {:?} {}", vt.whole_diags.first(), vt.separate_where),
                ));
            }
        }
        for (pipe, got) in [("whole", &vb.whole), ("separate", &vb.separate)] {
            if got == "panicked" || got == "hung" {
                r.violations.push(mk("crash", pipe, format!("C16: illegal project ({desc}) makes the {pipe} pipeline {got}")));
            } else if got != "rejected" {
                r.violations.push(mk("illegal-project-accepted", pipe, format!("C16: illegal project ({desc}) is accepted by the {pipe} pipeline")));
            }
        }
        if vb.whole == "rejected" && vb.whole_diags.iter().all(|d| d.trim().is_empty()) {
            r.violations.push(mk("rejected-without-diagnostic", "whole", format!("C16: illegal project ({desc}) rejected without any diagnostic")));
        }
        // order independence
        match &base_twin {
            None => base_twin = Some(vt.clone()),
            Some(b) => {
                if !same_verdict(b, &vt) {
                    r.violations.push(mk("order-dependent-verdict", "both", format!("C16: legal project (twin of: {desc}): verdict/diagnostics depend on the discovery order")));
                }
            }
        }
        match &base_bad {
            None => base_bad = Some(vb.clone()),
            Some(b) => {
                if !same_verdict(b, &vb) {
                    r.violations.push(mk("order-dependent-verdict", "both", format!("C16: illegal project ({desc}): verdict/diagnostics depend on the discovery order")));
                }
            }
        }
        if k == 0 && r.violations.is_empty() {
            let (probs, n3, ran) = store_configs(sb, &twin, c);
            r.procs += n3;
            r.store_configs += ran as u64;
            r.digest = sha(format!("{}{:?}", r.digest, probs).as_bytes());
            for (class, what) in probs {
                let mut v = mk(&class, "separate", what);
                v.key = json!({"class": class, "pipeline": "separate"});
                v.replay["store_config"] = json!(true);
                r.violations.push(v);
            }
        }
        if r.sample.is_none() {
            r.sample = Some(json!({"illegality": desc, "kind": format!("{kind:?}"), "twin_verdict": vt, "illegal_verdict": vb, "files": bad.keys().collect::<Vec<_>>()}));
        }
        if !r.violations.is_empty() {
            break;
        }
    }
    r
}

pub fn run(opts: &Opts) -> i32 {
    let n = opts.n(3000, 30000);
    let orders = if opts.tier == Tier::Quick { 4 } else { 12 };
    let mut ev = Evidence::new(
        PROP,
        "exploration",
        "cases = generated package graphs (2-7 packages, DAG imports, structs/enums/traits/impls/generics across packages), each as a legal twin and as the same project with exactly one injected illegality out of 44 kinds (use of a package that is not imported by this package or by this file in 17 syntactic positions, missing / misnamed package, import cycle, self import, cycle via Main, a misnamed package inside a cycle through its directory name, orphan impl for a foreign struct / foreign generic at a local argument / builtin type, inherent impl for a foreign or builtin type, duplicate impl with local or foreign trait / type in one or two files, unknown item), compiled whole-program and package-by-package under K discovery orders (entropy x readdir permutation x argument/build order); reference model: twin accepted, illegal rejected with >= 1 diagnostic, by both pipelines, identically for every order. distinct = distinct (illegal project, order); all cases are non-trivial (>= 2 packages)",
    );
    ev.components_real = harness::REAL_COMPONENTS.iter().map(|s| s.to_string()).collect();
    ev.components_stub = harness::STUB_COMPONENTS.iter().map(|s| s.to_string()).collect();
    ev.assumptions = vec![
        "reference model: P may name Q::x iff Q in {P, Builtin} + imports(P); impl legal iff trait or type head is local and unique; cycles, missing and misnamed packages rejected".into(),
        "the purely syntactic side of name lookup inside one package (C05) is not claimed".into(),
    ];
    let results = harness::parallel_with(
        n,
        opts.workers,
        |w| Sandbox::new(&format!("c16w{w}")).expect("sandbox"),
        |sb, i| check_case(sb, opts, i, orders, None),
    );
    harness::print_run_digest(&results.iter().map(|r| r.digest.clone()).collect::<Vec<_>>());
    let mut violations = Vec::new();
    let mut per_kind: BTreeMap<String, u64> = BTreeMap::new();
    let mut applicable = 0u64;
    let mut store_cfgs = 0u64;
    let mut in_place = 0u64;
    for r in results {
        ev.evaluations += r.procs;
        store_cfgs += r.store_configs;
        in_place += r.in_place;
        if r.applicable {
            applicable += 1;
            *per_kind.entry(r.kind.clone()).or_insert(0) += 1;
            ev.distinct.extend(r.fingerprints);
        }
        if let Some(s) = r.sample {
            if ev.samples.len() < 3 && (ev.samples.is_empty() || applicable % 37 == 0) {
                ev.sample(s);
            }
        }
        violations.extend(r.violations);
    }
    for (k, v) in &per_kind {
        ev.fault(&format!("layout:{k}"), *v);
    }
    ev.fault("store:interface-declaring-another-package-first-on-the-search-path", store_cfgs);
    ev.fault("history:illegal-version-built-over-the-store-of-the-legal-version", in_place);
    ev.extra.insert("graphs".into(), json!(n));
    ev.extra.insert("graphs_with_injected_illegality".into(), json!(applicable));
    ev.extra.insert("orders_per_graph".into(), json!(orders));
    ev.extra.insert("simulated_time".into(), json!("not applicable: no clock is read by the compiler"));
    let nviol = violations.len();
    let outcome = harness::conclude(PROP, violations, opts, &harness::verify_in_fresh_process);
    ev.write(opts, outcome.unlisted as usize, nviol);
    println!(
        "C16 {}: {} graphs ({} with an injected illegality) x {} orders, {} simulated processes, {} violations ({} known), {:.1}s",
        opts.tier.name(),
        n,
        applicable,
        orders,
        ev.evaluations,
        outcome.unlisted,
        outcome.known,
        ev.start.elapsed().as_secs_f64()
    );
    outcome.exit_code
}

pub fn replay(file: &Value) -> bool {
    let r = &file["replay"];
    let twin = files_from_json(&r["twin"]);
    let bad = files_from_json(&r["bad"]);
    let kind: Illegal = serde_json::from_value(r["illegal"].clone()).unwrap_or(Illegal::UnknownItem);
    let desc = r["description"].as_str().unwrap_or("").to_string();
    let sb = Sandbox::new("c16replay").expect("sandbox");
    let opts = Opts { seed: file["seed"].as_u64().unwrap_or(0), tier: Tier::Quick, workers: 1, scale: 1.0, dry: true };
    let res = check_case(&sb, &opts, 0, 12, Some((twin, bad, desc, kind)));
    for v in &res.violations {
        println!("replayed: {}", v.what);
    }
    let class = r["class"].as_str().unwrap_or("");
    let pipeline = r["pipeline"].as_str().unwrap_or("");
    res.violations.iter().any(|v| v.class == class && v.key["pipeline"] == pipeline)
}

#[allow(dead_code)]
fn unused(e: Exit) -> Exit {
    e
}
