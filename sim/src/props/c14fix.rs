//! C14, history dimension "the compiler was upgraded between two builds".
//!
//! Every artifact of the other simulations is written by the compiler under test. A store that
//! was filled by an *earlier build of the compiler* exists in no such history, yet it is what a
//! user has on disk after an upgrade: the format carries `format_version` / `compiler_abi`
//! exactly so that such files are either still understood or refused. `/verif/fixtures/` holds
//! complete artifact sets (`*.interface`, `*.core`) that the pinned compiler wrote for a fixed
//! list of projects (`sim make-fixtures`, run once, committed). Here the compiler under test
//!   A. links a store that consists of old artifacts only,
//!   B. rebuilds a seeded subset of the packages in place over the old store and links the mix.
//! It may refuse (counted); if it links, the program must behave like the whole-program build of
//! the same sources by the compiler under test — on the simulated Go runtime.

use crate::genp::conc;
use crate::genp::project::{GenCfg, generate};
use crate::harness::{Opts, Violation};
use crate::ops::{self, Layout};
use crate::prng::{Prng, mix, purpose};
use crate::props::c13::{files_from_json, files_json};
use crate::props::c14::{self, Case, PROP};
use crate::world::{Exit, Files, ProcSpec, Sandbox, sha};
use serde_json::{Value, json};
use std::collections::BTreeMap;

pub const FIXTURE_DIR: &str = "fixtures";

/// Sources of the fixture projects: a fixed list, independent of VERIF_SEED.
pub fn fixture_sources() -> Vec<Case> {
    let mut out = Vec::new();
    // the multi-package projects of the repository's corpus
    for c in ops::corpus() {
        if c.name.starts_with("package/") {
            out.push(Case { name: c.name, files: c.files, predicted: None });
        }
    }
    // generated multi-package projects
    let mut i = 0u64;
    let mut taken = 0;
    while taken < 40 && i < 400 {
        let mut p = Prng::derive(0xF1C5, i, "c14-fixture-project");
        let cfg = GenCfg::swarm(&mut p);
        let proj = generate(&mut p, &cfg);
        if proj.pkgs.len() >= 2 {
            out.push(Case { name: format!("fixgen/{i}"), files: proj.render(), predicted: proj.predict_stdout() });
            taken += 1;
        }
        i += 1;
    }
    // sequential programs full of effectful expression shapes, as a library package `Work`
    // called from a one-line Main: whatever is lowered at build time or at link time (operators,
    // matches, closures, loops, discarded expressions) sits in Work.core
    for i in 0..60u64 {
        let mut p = Prng::derive(0xF1C5, i, "c14-fixture-conc");
        let mut cfg = conc::ConcCfg::swarm(&mut p);
        cfg.spawns = 0;
        cfg.nested_go = false;
        cfg.sleep = false;
        cfg.failing_ops = i % 4 == 3;
        cfg.stmts = 3 + p.usize(4);
        let text = conc::generate(&mut p, &cfg);
        if text.contains("go ") {
            continue;
        }
        let lib = format!("package Work\n\n{}", text.replace("fn main() -> unit {", "fn work() -> unit {"));
        let mut files = Files::new();
        files.insert("Work/lib.gom".to_string(), lib.into_bytes());
        files.insert("main.gom".to_string(), b"package Main\nimport Work\n\nfn main() -> unit {\n    Work::work()\n}\n".to_vec());
        out.push(Case { name: format!("fixwork/{i}"), files, predicted: None });
    }
    out
}

fn behaviour_of_whole(sb: &Sandbox, entropy: u64) -> Option<(String, String, usize)> {
    let spec = ProcSpec { entropy, readdir: entropy ^ 0x55, ..Default::default() };
    let (sum, compiled, _) = ops::run_main(sb, &spec, false);
    if sum.class != "compiled" {
        return None;
    }
    let c = *compiled?;
    Some(c14::run_behaviour(c.go, 7))
}

/// `sim make-fixtures`: build every fixture project with the compiler in /repo and store sources,
/// artifacts and the behaviour of the whole-program build.
pub fn make_fixtures(verif_dir: &str) -> i32 {
    let sb = Sandbox::new("c14mkfix").expect("sandbox");
    let dir = format!("{verif_dir}/{FIXTURE_DIR}");
    let _ = std::fs::remove_dir_all(&dir);
    std::fs::create_dir_all(&dir).expect("fixture dir");
    let mut n = 0;
    for case in fixture_sources() {
        sb.materialise(&case.files);
        let Some((stdout, stop, gor)) = behaviour_of_whole(&sb, 11) else {
            println!("skip {} (whole-program build rejects)", case.name);
            continue;
        };
        if gor > 1 || !(stop == "returned" || stop == "failed") {
            println!("skip {} ({stop}, {gor} goroutines)", case.name);
            continue;
        }
        let layout = Layout::scan(&case.files);
        let Some(sep) = c14::separate(&sb, &layout, &c14::SepSchedule { seed: 3 }) else { continue };
        if !sep.ok {
            println!("skip {} (separate build fails: {:?})", case.name, sep.failure);
            continue;
        }
        let mut artifacts: BTreeMap<String, String> = BTreeMap::new();
        for (k, v) in &sep.iface_build {
            artifacts.insert(format!("{k}.interface"), sb.normalise(&String::from_utf8_lossy(v)));
        }
        for (k, v) in &sep.cores {
            artifacts.insert(format!("{k}.core"), sb.normalise(&String::from_utf8_lossy(v)));
        }
        let fx = json!({
            "name": case.name,
            "written_by": "goml at the pinned commit + the fix: commits of /repo as of the day the fixtures were made",
            "files": files_json(&case.files),
            "artifacts": artifacts,
            "whole_program_stdout": stdout,
            "whole_program_stop": stop,
        });
        let path = format!("{dir}/{}.json", case.name.replace('/', "_"));
        let text = serde_json::to_string(&fx).unwrap();
        if text.len() > 350_000 {
            println!("skip {} (artifacts of {} bytes; fixtures are kept small)", case.name, text.len());
            continue;
        }
        std::fs::write(&path, text).expect("write fixture");
        n += 1;
    }
    println!("{n} fixtures written to {dir}");
    0
}

pub fn load_fixtures(verif_dir: &str) -> Vec<Value> {
    let dir = format!("{verif_dir}/{FIXTURE_DIR}");
    let mut names: Vec<String> = match std::fs::read_dir(&dir) {
        Ok(rd) => rd.flatten().map(|e| e.file_name().to_string_lossy().to_string()).filter(|n| n.ends_with(".json")).collect(),
        Err(_) => Vec::new(),
    };
    names.sort();
    names
        .iter()
        .filter_map(|n| std::fs::read(format!("{dir}/{n}")).ok())
        .filter_map(|b| serde_json::from_slice::<Value>(&b).ok())
        .collect()
}

pub struct FixResult {
    pub violations: Vec<Violation>,
    pub procs: u64,
    pub probes: BTreeMap<&'static str, u64>,
    pub digest: String,
    pub sample: Option<Value>,
}

fn result_of(sb: &Sandbox, e: &Exit) -> String {
    match e {
        Exit::Ok => "ok".to_string(),
        Exit::Err(m) => format!("err: {}", sb.normalise(m).chars().take(160).collect::<String>()),
        Exit::Panicked(m) => format!("PANIC: {}", sb.normalise(m).chars().take(160).collect::<String>()),
        o => o.class().to_string(),
    }
}

/// One fixture under one scenario seed. `subset_override` (replay) fixes the rebuilt packages.
pub fn check_fixture(sb: &Sandbox, fx: &Value, seed: u64, nscen: usize, only: Option<&Value>) -> FixResult {
    let mut r = FixResult { violations: Vec::new(), procs: 0, probes: BTreeMap::new(), digest: String::new(), sample: None };
    let name = fx["name"].as_str().unwrap_or("fixture").to_string();
    let files = files_from_json(&fx["files"]);
    let layout = Layout::scan(&files);
    let arts: BTreeMap<String, String> = fx["artifacts"].as_object().map(|m| m.iter().map(|(k, v)| (k.clone(), v.as_str().unwrap_or("").to_string())).collect()).unwrap_or_default();
    sb.materialise(&files);
    let Some(whole) = behaviour_of_whole(sb, mix(&[seed, 1])) else {
        *r.probes.entry("fixture_sources_rejected_by_the_compiler_under_test").or_insert(0) += 1;
        return r;
    };
    r.procs += 1;
    if whole.1.starts_with("unsupported") || whole.2 > 1 {
        *r.probes.entry("fixture_skipped_unsupported").or_insert(0) += 1;
        return r;
    }
    let Some(order) = layout.topo(&mut Prng::new(1)) else { return r };
    let put_old = |sb: &Sandbox| {
        sb.remove("mix");
        for (k, v) in &arts {
            sb.write(&format!("mix/{k}"), v.replace("/sim", &sb.root).as_bytes());
        }
    };
    for k in 0..nscen {
        let mut p = Prng::new(mix(&[seed, k as u64, purpose("c14-fixture-scenario")]));
        // scenario 0: nothing rebuilt; later ones: a seeded non-empty subset
        let rebuilt: Vec<String> = match only {
            Some(o) => o["rebuilt"].as_array().map(|a| a.iter().filter_map(|x| x.as_str().map(|s| s.to_string())).collect()).unwrap_or_default(),
            None if k == 0 => Vec::new(),
            None => {
                let mut s: Vec<String> = order.iter().filter(|_| p.chance(1, 2)).cloned().collect();
                if s.is_empty() {
                    s.push(order[p.usize(order.len())].clone());
                }
                if s.len() == order.len() && order.len() > 1 {
                    s.remove(p.usize(order.len()));
                }
                s
            }
        };
        let ent = match only {
            Some(o) => o["entropy"].as_u64().unwrap_or(0),
            None => p.next_u64(),
        };
        put_old(sb);
        let mut steps: Vec<Value> = Vec::new();
        let mut build_failed = false;
        for pk in order.iter().filter(|n| rebuilt.contains(n)) {
            let spec = ProcSpec { entropy: mix(&[ent, purpose(pk)]), readdir: mix(&[ent, 2, purpose(pk)]), ..Default::default() };
            let mut ap = Prng::new(mix(&[ent, 3, purpose(pk)]));
            let args = ops::pkg_args(sb, "build", &layout.pkgs[pk], &["mix".to_string()], "mix", &mut ap);
            let res = ops::goml(sb, &spec, args);
            r.procs += 1;
            let rs = result_of(sb, &res.exit);
            steps.push(json!({"op": "build", "pkg": pk, "result": rs}));
            if res.exit != Exit::Ok {
                build_failed = true;
                break;
            }
        }
        if build_failed {
            *r.probes.entry("rebuild_over_old_store_refused").or_insert(0) += 1;
            r.digest = sha(format!("{}{}", r.digest, serde_json::to_string(&steps).unwrap()).as_bytes());
            if only.is_some() { break; }
            continue;
        }
        let cores: Vec<String> = order.iter().map(|n| format!("mix/{n}.core")).collect();
        let spec = ProcSpec { entropy: mix(&[ent, 7]), readdir: mix(&[ent, 8]), ..Default::default() };
        let mut ap = Prng::new(mix(&[ent, 9]));
        let res = ops::goml(sb, &spec, ops::link_args(sb, &cores, "mix/main.go", &mut ap));
        r.procs += 1;
        steps.push(json!({"op": "link", "pkg": order.join(","), "result": result_of(sb, &res.exit)}));
        r.digest = sha(format!("{}{}", r.digest, serde_json::to_string(&steps).unwrap()).as_bytes());
        if res.exit != Exit::Ok {
            *r.probes.entry(if rebuilt.is_empty() { "old_release_store_refused_by_link" } else { "mixed_store_refused_by_link" }).or_insert(0) += 1;
            if only.is_some() { break; }
            continue;
        }
        *r.probes.entry(if rebuilt.is_empty() { "old_release_store_linked" } else { "mixed_old_and_new_store_linked" }).or_insert(0) += 1;
        let beh = match c14::link_ast(sb, &cores, mix(&[ent, 10])) {
            Ok((go, _)) => c14::run_behaviour(go, 7),
            Err(e) => ("".to_string(), format!("link_cores fails: {e}"), 0),
        };
        if beh.1.starts_with("unsupported") {
            *r.probes.entry("fixture_skipped_unsupported").or_insert(0) += 1;
        } else if beh.0 != whole.0 || beh.1 != whole.1 {
            let class = "old-release-artifacts-behave-differently";
            r.violations.push(Violation {
                property: PROP.into(),
                class: class.to_string(),
                key: json!({"class": class}),
                what: format!(
                    "C14: project {}: a store written by the earlier release of the compiler{} is accepted by `goml link`, but the linked program prints {:?} ({}) where the whole-program build of the same sources prints {:?} ({})",
                    name,
                    if rebuilt.is_empty() { String::new() } else { format!(", with {} rebuilt in place by the compiler under test,", rebuilt.join(", ")) },
                    beh.0.chars().take(300).collect::<String>(),
                    beh.1,
                    whole.0.chars().take(300).collect::<String>(),
                    whole.1
                ),
                replay: json!({"kind": "c14-fixture", "class": class, "fixture": fx, "scenario": {"rebuilt": rebuilt, "entropy": ent}, "seed": seed}),
            });
        }
        if r.sample.is_none() && !rebuilt.is_empty() {
            r.sample = Some(json!({"fixture_project": name, "old_release_artifacts": arts.keys().collect::<Vec<_>>(), "rebuilt_in_place": rebuilt, "steps": steps, "behaviour_equals_whole_program": beh.0 == whole.0}));
        }
        if !r.violations.is_empty() || only.is_some() {
            break;
        }
    }
    r
}

pub fn phase(opts: &Opts, verif_dir: &str) -> (Vec<FixResult>, usize) {
    let fixtures = load_fixtures(verif_dir);
    let nscen = opts.n(3, 12);
    let results = crate::harness::parallel_with(
        fixtures.len(),
        opts.workers,
        |w| Sandbox::new(&format!("c14fx{w}")).expect("sandbox"),
        |sb, i| check_fixture(sb, &fixtures[i], mix(&[opts.seed, i as u64, purpose("c14-fixture")]), nscen, None),
    );
    (results, fixtures.len())
}

pub fn replay(file: &Value) -> bool {
    let r = &file["replay"];
    let sb = Sandbox::new("c14fxrepl").expect("sandbox");
    let res = check_fixture(&sb, &r["fixture"], r["seed"].as_u64().unwrap_or(0), 1, Some(&r["scenario"]));
    for v in &res.violations {
        println!("replayed: {}", v.what);
    }
    !res.violations.is_empty()
}
