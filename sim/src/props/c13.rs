//! C13 — compilation is deterministic and reproducible.
//!
//! For each project, R executions that differ only in the nondeterminism behind the seams
//! (hash seeds = simulated process entropy, readdir order, order of list arguments, which OS
//! process, first-vs-later compile in a process) must agree byte for byte on: Go text, the eight
//! stage dumps, verdict + ordered diagnostics, *.interface / *.core / linked main.go bytes.

use crate::genp::project::{GenCfg, generate};
use crate::harness::{self, Evidence, Opts, Tier, Violation};
use crate::ops::{self, Layout, RunSummary};
use crate::prng::{Prng, mix, purpose};
use crate::world::{Exit, Files, ProcSpec, Sandbox, sha};
use serde_json::{Value, json};
use std::collections::BTreeMap;

pub const PROP: &str = "C13";

pub struct Case {
    pub name: String,
    pub files: Files,
    /// abstract project (generated cases only): lets the check edit a package consistently
    pub proj: Option<crate::genp::project::Project>,
    pub gen_index: Option<usize>,
}

#[derive(Clone, Debug, serde::Serialize, serde::Deserialize)]
pub struct Config {
    pub entropy: u64,
    pub readdir: u64,
    pub order: u64,
}

fn config(seed: u64, case: u64, c: u64) -> Config {
    Config {
        entropy: mix(&[seed, case, c, purpose("entropy")]),
        readdir: mix(&[seed, case, c, purpose("readdir")]),
        order: mix(&[seed, case, c, purpose("order")]),
    }
}

/// Everything one configuration produced, field name -> bytes (as text).
pub type Observed = BTreeMap<String, String>;

fn split_dumps(dumps: &str, out: &mut Observed) {
    // stdout of `run --dump-*`: sections "== Label ==\n..."
    let mut cur: Option<String> = None;
    let mut buf = String::new();
    for line in dumps.lines() {
        if line.starts_with("== ") && line.ends_with(" ==") {
            if let Some(l) = cur.take() {
                out.insert(format!("dump:{l}"), std::mem::take(&mut buf));
            }
            cur = Some(line[3..line.len() - 3].to_string());
        } else {
            buf.push_str(line);
            buf.push('\n');
        }
    }
    if let Some(l) = cur.take() {
        out.insert(format!("dump:{l}"), buf);
    }
}

fn observe_run(sum: &RunSummary, out: &mut Observed) {
    out.insert("run:verdict".into(), format!("{}:{}", sum.class, sum.kind));
    out.insert("run:go".into(), sum.go_text.clone());
    out.insert("run:diagnostics".into(), sum.diagnostics.join("\n"));
    out.insert("run:message".into(), sum.message.clone());
    split_dumps(&sum.dumps, out);
}

pub static SYMLINKED: std::sync::atomic::AtomicU64 = std::sync::atomic::AtomicU64::new(0);

/// Execute one configuration of one case in the sandbox; returns everything observable.
pub fn execute(sb: &Sandbox, files: &Files, layout: &Layout, topo: Option<&[String]>, cfg: &Config) -> (Observed, u64, Vec<String>) {
    sb.materialise(files);
    // one decision vector in four keeps a source file of a multi-file package elsewhere, behind
    // a symbolic link (a shared or vendored file): same spelling, same bytes, same result
    if cfg.order % 4 == 3 {
        let multi: Vec<&ops::PkgLayout> = layout.pkgs.values().filter(|p| p.files.len() >= 2).collect();
        if !multi.is_empty() {
            let pk = multi[((cfg.order / 4) as usize) % multi.len()];
            if let Some(rel) = pk.files.iter().find(|f| f.as_str() != "main.gom") {
                if let Some(bytes) = sb.read(rel) {
                    let target = format!("zz_store/zzzz_{}", rel.replace('/', "__"));
                    sb.write(&target, &bytes);
                    sb.remove(rel);
                    let _ = std::os::unix::fs::symlink(sb.path(&target), sb.path(rel));
                    SYMLINKED.fetch_add(1, std::sync::atomic::Ordering::Relaxed);
                }
            }
        }
    }
    let mut obs = Observed::new();
    let spec = ProcSpec { entropy: cfg.entropy, readdir: cfg.readdir, ..Default::default() };
    let (sum, _c, shell) = ops::run_main(sb, &spec, true);
    observe_run(&sum, &mut obs);
    let mut procs = 1u64;
    // the same injected I/O fault must be reported the same way whatever the hash seed and the
    // directory order are (files are opened in sorted order, so the n-th open is the same file)
    let nth = (cfg_fault_position(files) % 4) as u32;
    let fspec = ProcSpec {
        entropy: cfg.entropy,
        readdir: cfg.readdir,
        plan: vec![crate::shim::FaultRule { call: crate::shim::Call::Open, nth, action: crate::shim::Action::Errno(libc::EIO) }],
        ..Default::default()
    };
    let (fsum, _c2, _s2) = ops::run_main(sb, &fspec, false);
    obs.insert("fault:verdict".into(), format!("{}:{}:{}:{}", fsum.class, fsum.kind, fsum.diagnostics.join("|"), fsum.message));
    procs += 1;
    // observed directory orders (for the evidence measure)
    let mut dir_orders = Vec::new();
    let mut cur = String::new();
    for e in shell.log.iter().filter(|e| e.call == "readdir" && e.res == 1) {
        cur.push_str(&e.path);
        cur.push(';');
    }
    dir_orders.push(cur);
    if let Some(order) = topo {
        let mut ent = Prng::new(mix(&[cfg.entropy, cfg.readdir]));
        let mut seeds = Prng::new(cfg.order);
        let sep = ops::separate_build(sb, layout, order, &mut ent, &mut seeds, true);
        procs += 2 * order.len() as u64 + 1;
        obs.insert(
            "sep:verdict".into(),
            match &sep.failure {
                None => "ok".to_string(),
                Some((step, msg)) => format!("{step}: {msg}"),
            },
        );
        for (path, bytes) in sep.artifacts {
            obs.insert(format!("artifact:{path}"), sb.normalise(&String::from_utf8_lossy(&bytes)));
        }
        // several unusable dependencies at once: which one `check` / `build` complains about
        // must not depend on the hash seed (all interfaces missing; all interfaces cut in half)
        if let Some(pk) = order.iter().map(|n| &layout.pkgs[n]).find(|p| p.imports.len() >= 2) {
            let ifaces: Vec<String> = sb.snapshot().keys().filter(|k| k.starts_with("out/") && k.ends_with(".interface")).cloned().collect();
            for (tag, cut) in [("corrupt", true), ("missing", false)] {
                for f in &ifaces {
                    if cut {
                        if let Some(b) = sb.read(f) {
                            sb.write(f, &b[..b.len() / 2]);
                        }
                    } else {
                        sb.remove(f);
                    }
                }
                for cmd in ["check", "build"] {
                    let args = ops::pkg_args(sb, cmd, pk, &["out".to_string()], "out3", &mut Prng::new(cfg.order));
                    let r = ops::goml(sb, &spec, args);
                    procs += 1;
                    let msg = match &r.exit {
                        Exit::Err(m) => sb.normalise(m),
                        other => other.class().to_string(),
                    };
                    obs.insert(format!("sep:{tag}-deps:{cmd}"), msg);
                }
            }
        }
    }
    (obs, procs, dir_orders)
}

/// Which open() fails in the faulty run of a project: a function of the project only.
fn cfg_fault_position(files: &Files) -> u64 {
    files.keys().map(|k| k.len() as u64).sum::<u64>() + files.len() as u64
}

fn field_class(field: &str) -> String {
    // group artifact:out/Pa.core -> artifact:core etc. for the structural key
    if let Some(rest) = field.strip_prefix("artifact:") {
        let ext = rest.rsplit('.').next().unwrap_or("");
        return format!("artifact:{ext}");
    }
    field.to_string()
}

pub fn first_difference(a: &Observed, b: &Observed) -> Option<String> {
    let keys: std::collections::BTreeSet<&String> = a.keys().chain(b.keys()).collect();
    // report in pipeline order so that the earliest stage that differs is named
    let rank = |k: &str| -> usize {
        let order = [
            "run:verdict", "run:message", "run:diagnostics", "dump:AST", "dump:HIR", "dump:Typed AST", "dump:Core",
            "dump:Mono", "dump:Lifted", "dump:ANF", "dump:Go", "run:go", "sep:verdict",
        ];
        order.iter().position(|o| *o == k).unwrap_or(order.len())
    };
    let mut ks: Vec<&String> = keys.into_iter().collect();
    ks.sort_by_key(|k| (rank(k), (*k).clone()));
    for k in ks {
        if a.get(k) != b.get(k) {
            return Some(k.clone());
        }
    }
    None
}

fn nontrivial(layout: &Layout, obs: &Observed) -> bool {
    layout.pkgs.values().any(|p| p.imports.len() >= 2 || p.files.len() >= 2)
        || obs.get("run:diagnostics").map(|d| d.lines().count() >= 2).unwrap_or(false)
        || layout.pkgs.len() >= 2
}

pub fn cases(opts: &Opts) -> Vec<Case> {
    let mut out: Vec<Case> = ops::corpus().into_iter().map(|c| Case { name: c.name, files: c.files, proj: None, gen_index: None }).collect();
    let ngen = opts.n(1200, 8000);
    for i in 0..ngen {
        let mut p = Prng::derive(opts.seed, i as u64, "c13-project");
        let cfg = GenCfg::swarm(&mut p);
        let mut proj = generate(&mut p, &cfg);
        let mut name = format!("gen/{i}");
        // every third project carries several independent errors (diagnostic order matters)
        if i % 3 == 2 {
            // several packages fail at once: the order of diagnostics *across* packages matters too
            let k = 1 + p.usize(3);
            for _ in 0..k {
                let pi = p.usize(proj.pkgs.len());
                if proj.pkgs[pi].raw.is_empty() {
                    proj.pkgs[pi].raw = crate::genp::variants::multi_error_text(&mut p);
                }
            }
            name.push_str("+errors");
        }
        if i % 7 == 6 {
            // two files of one package directory fail to *load* (syntax errors)
            let pi = p.usize(proj.pkgs.len());
            proj.pkgs[pi].nfiles = proj.pkgs[pi].nfiles.max(2);
            proj.pkgs[pi].raw.push_str("\nfn zz_broken_a( -> {\n");
            proj.pkgs[pi].raw_last.push_str("\nstruct ZzBrokenB {{ x int32\n");
            name.push_str("+2badfiles");
        }
        let keep = if i % 3 == 2 { None } else { Some(proj.clone()) };
        let mut files = proj.render();
        if i % 9 == 4 {
            // two files of one directory whose names differ only in letter case (legal on a
            // case-sensitive file system): an order that ignores case leaves them tied
            if case_twin_rename(&mut files) {
                name.push_str("+case-twin-files");
            }
        }
        out.push(Case { name, files, proj: keep, gen_index: Some(i) });
    }
    // single-file programs with many compiler-generated helper items (Ref / array / tuple /
    // closure-environment / dyn types, several instantiations of generic functions): the order
    // in which those are emitted must not depend on hash seeds either
    let nconc = opts.n(150, 2000);
    for i in 0..nconc {
        let mut p = Prng::derive(opts.seed, i as u64, "c13-conc");
        let cfg = crate::genp::conc::ConcCfg::swarm(&mut p);
        let mut text = crate::genp::conc::generate(&mut p, &cfg);
        text.push_str(&helper_zoo(&mut p));
        let mut files = Files::new();
        files.insert("main.gom".to_string(), text.into_bytes());
        out.push(Case { name: format!("conc/{i}"), files, proj: None, gen_index: None });
    }
    out
}

/// Rename the second file of the first multi-file directory to the upper-case twin of the first
/// (`Pa/a_lib.gom`, `Pa/b.gom` -> `Pa/a_lib.gom`, `Pa/A_lib.gom`).
pub fn case_twin_rename(files: &mut Files) -> bool {
    let mut by_dir: BTreeMap<String, Vec<String>> = BTreeMap::new();
    for f in files.keys().filter(|f| f.ends_with(".gom")) {
        let (dir, _) = f.rsplit_once('/').unwrap_or(("", f.as_str()));
        by_dir.entry(dir.to_string()).or_default().push(f.clone());
    }
    for (dir, fs) in by_dir {
        // never the entry file's directory twin `Main.gom` (C14 has that one), and only plain names
        let cands: Vec<&String> = fs.iter().filter(|f| !f.ends_with("main.gom")).collect();
        if cands.len() >= 2 {
            let first = cands[0].clone();
            let second = cands[1].clone();
            let base = first.rsplit_once('/').map(|x| x.1).unwrap_or(first.as_str());
            let mut cs = base.chars();
            let twin_base: String = match cs.next() {
                Some(c) if c.is_ascii_lowercase() => c.to_ascii_uppercase().to_string() + cs.as_str(),
                _ => continue,
            };
            let twin = if dir.is_empty() { twin_base } else { format!("{dir}/{twin_base}") };
            if files.contains_key(&twin) {
                continue;
            }
            if let Some(b) = files.remove(&second) {
                files.insert(twin, b);
                return true;
            }
        }
    }
    false
}

/// Extra functions using a random selection, in random order, of Ref / array / tuple types.
fn helper_zoo(p: &mut Prng) -> String {
    let mut lines: Vec<String> = vec![
        "    let za = ref(true);".into(),
        "    let zb = ref(\"s\");".into(),
        "    let zc = ref(ref(1));".into(),
        "    let zd = [1, 2];".into(),
        "    let ze = [true, false, true];".into(),
        "    let zf = [\"a\", \"b\", \"c\", \"d\"];".into(),
        "    let zg = (1, true);".into(),
        "    let zh = (\"x\", 2, false);".into(),
        "    let zi = ((1, 2), \"y\");".into(),
        "    let zj = ref((1, 2));".into(),
        "    let zk = |u: bool| u;".into(),
        "    let zl = |u: string| u + \"!\";".into(),
        "    let zm = ref([1, 2, 3]);".into(),
    ];
    p.shuffle(&mut lines);
    let n = 3 + p.usize(lines.len() - 2);
    let mut s = String::from("\nfn zoo() -> unit {\n");
    for l in lines.into_iter().take(n) {
        s.push_str(&l);
        s.push('\n');
    }
    s.push_str("    ()\n}\n");
    s
}

/// A failing link must fail the same way in every process: build everything, change the
/// interface of a package with >= 2 dependents, rebuild only that package, link — several
/// dependents are stale at once, and which one the error names must not depend on hash seeds.
fn stale_link_message(sb: &Sandbox, proj: &crate::genp::project::Project, cfg: &Config) -> Option<String> {
    let n = proj.pkgs.len();
    let leaf = (1..n).find(|d| (0..n).filter(|c| proj.pkgs[*c].imports.contains(d)).count() >= 2)?;
    let files = proj.render();
    sb.materialise(&files);
    let layout = Layout::scan(&files);
    let order = layout.topo(&mut Prng::new(7))?;
    let mut ent = Prng::new(mix(&[cfg.entropy, 11]));
    let mut ord = Prng::new(cfg.order);
    let sep = ops::separate_build(sb, &layout, &order, &mut ent, &mut ord, false);
    if !sep.ok {
        return None;
    }
    let mut edited = proj.clone();
    edited.apply_edit(&crate::genp::project::Edit::AddFn { p: leaf }, 777);
    for (f, b) in edited.render_pkg(leaf) {
        sb.write(&f, &b);
    }
    let pk = &layout.pkgs[&proj.pkgs[leaf].name];
    // the interface of the previous generation stays around in a second directory
    let leaf_name = proj.pkgs[leaf].name.clone();
    if let Some(b) = sb.read(&format!("out/{leaf_name}.interface")) {
        sb.write(&format!("old/{leaf_name}.interface"), &b);
    }
    let spec = ProcSpec { entropy: ent.next_u64(), readdir: ent.next_u64(), ..Default::default() };
    let r = ops::goml(sb, &spec, ops::pkg_args(sb, "build", pk, &["out".to_string()], "out", &mut ord));
    if r.exit != crate::world::Exit::Ok {
        return None;
    }
    let cores: Vec<String> = order.iter().map(|p| format!("out/{p}.core")).collect();
    let spec = ProcSpec { entropy: ent.next_u64(), readdir: ent.next_u64(), ..Default::default() };
    let r = ops::goml(sb, &spec, ops::link_args(sb, &cores, "out/main.go", &mut ord));
    let mut msg = match r.exit {
        crate::world::Exit::Ok => "link succeeded".to_string(),
        crate::world::Exit::Err(m) => sb.normalise(&m),
        other => other.class().to_string(),
    };
    // one dependent is rebuilt with two interface directories that both hold an interface of the
    // edited package (current generation in the first, previous one in the second, given in this
    // order): which one is used, and hence every byte written, must be the same in every process
    // — whatever the file-system clock of that process says about the two files
    if let Some(c) = (0..n).find(|c| proj.pkgs[*c].imports.contains(&leaf)) {
        let cpk = &layout.pkgs[&proj.pkgs[c].name];
        let mut args = vec![ops::s("goml"), ops::s("build"), ops::s("--package"), cpk.name.clone(), ops::s("--input")];
        let mut inputs: Vec<String> = cpk.files.iter().map(|f| sb.path(f)).collect();
        ord.shuffle(&mut inputs);
        args.extend(inputs);
        for d in ["out", "old"] {
            args.push(ops::s("--interface-path"));
            args.push(sb.path(d));
        }
        args.push(ops::s("--output"));
        args.push(sb.path(&format!("two/{}", cpk.name)));
        let spec = ProcSpec { entropy: ent.next_u64(), readdir: ent.next_u64(), ..Default::default() };
        let r = ops::goml(sb, &spec, args);
        let written = ["interface", "core"]
            .iter()
            .map(|e| sb.read(&format!("two/{}.{e}", cpk.name)).map(|b| sha(sb.normalise(&String::from_utf8_lossy(&b)).as_bytes())[..16].to_string()).unwrap_or_else(|| "-".into()))
            .collect::<Vec<_>>()
            .join(",");
        msg.push_str(&format!(" | rebuild of {} with two interface directories: {} [{}]", cpk.name, r.exit.class(), written));
    }
    Some(msg)
}

struct CaseResult {
    violation: Option<Violation>,
    procs: u64,
    fingerprints: Vec<String>,
    nontrivial: bool,
    sample: Option<Value>,
    dir_orders: std::collections::BTreeSet<String>,
    digest: String,
}

pub fn files_json(files: &Files) -> Value {
    let m: BTreeMap<String, String> =
        files.iter().map(|(k, v)| (k.clone(), String::from_utf8_lossy(v).to_string())).collect();
    json!(m)
}

pub fn files_from_json(v: &Value) -> Files {
    let mut f = Files::new();
    if let Some(m) = v.as_object() {
        for (k, t) in m {
            f.insert(k.clone(), t.as_str().unwrap_or("").as_bytes().to_vec());
        }
    }
    f
}

/// Shrink the difference between two configurations: reset each component of b to a's value
/// while the same field still differs.
fn minimise_configs(sb: &Sandbox, files: &Files, layout: &Layout, topo: Option<&[String]>, a: &Config, b: &Config, field: &str) -> Config {
    let mut best = b.clone();
    let base = execute(sb, files, layout, topo, a).0;
    for comp in 0..3 {
        let mut t = best.clone();
        match comp {
            0 => t.order = a.order,
            1 => t.readdir = a.readdir,
            _ => t.entropy = a.entropy,
        }
        let o = execute(sb, files, layout, topo, &t).0;
        if o.get(field) != base.get(field) {
            best = t;
        }
    }
    best
}

/// Shrink the project: drop whole files / packages while the same field still differs.
fn minimise_files(sb: &Sandbox, files: &Files, a: &Config, b: &Config, field: &str) -> Files {
    let mut cur = files.clone();
    let differs = |fs: &Files| -> bool {
        let layout = Layout::scan(fs);
        let topo = layout.topo(&mut Prng::new(0));
        let oa = execute(sb, fs, &layout, topo.as_deref(), a).0;
        let ob = execute(sb, fs, &layout, topo.as_deref(), b).0;
        oa.get(field) != ob.get(field)
    };
    let names: Vec<String> = cur.keys().cloned().collect();
    for n in names {
        if n == "main.gom" {
            continue;
        }
        let mut t = cur.clone();
        t.remove(&n);
        if differs(&t) {
            cur = t;
        }
    }
    cur
}

fn check_case(sb: &Sandbox, opts: &Opts, idx: usize, case: &Case, runs: usize, prev_files: Option<&Files>) -> CaseResult {
    let layout = Layout::scan(&case.files);
    let topo = if layout.pkgs.len() >= 1 && layout.pkgs.contains_key("Main") {
        layout.topo(&mut Prng::new(mix(&[opts.seed, idx as u64, purpose("topo")])))
    } else {
        None
    };
    let c0 = config(opts.seed, idx as u64, 0);
    let (mut base, mut procs, d0) = execute(sb, &case.files, &layout, topo.as_deref(), &c0);
    if let Some(pj) = &case.proj {
        if let Some(m) = stale_link_message(sb, pj, &c0) {
            base.insert("stale-link:message".into(), m);
            procs += pj.pkgs.len() as u64 + 3;
        }
    }
    let mut fingerprints = Vec::new();
    let mut dir_orders: std::collections::BTreeSet<String> = d0.into_iter().collect();
    let nt = nontrivial(&layout, &base);
    let pd = sha(serde_json::to_string(&files_json(&case.files)).unwrap().as_bytes());
    fingerprints.push(format!("{}:{}", &pd[..12], 0));
    let mut violation = None;
    let mut digest = sha(serde_json::to_string(&base).unwrap().as_bytes());
    for c in 0..runs {
        // c == 0 repeats the identical decision vector: nondeterminism outside every seam
        let cfg = if c == 0 { c0.clone() } else { config(opts.seed, idx as u64, c as u64) };
        let (mut obs, n, d) = execute(sb, &case.files, &layout, topo.as_deref(), &cfg);
        if let Some(pj) = &case.proj {
            if let Some(m) = stale_link_message(sb, pj, &cfg) {
                obs.insert("stale-link:message".into(), m);
                procs += pj.pkgs.len() as u64 + 3;
            }
        }
        procs += n;
        digest = sha(format!("{digest}{}", serde_json::to_string(&obs).unwrap()).as_bytes());
        dir_orders.extend(d);
        fingerprints.push(format!("{}:{}", &pd[..12], c));
        if let Some(field) = first_difference(&base, &obs) {
            let same_vector = c == 0;
            // minimise
            let (cfg_b, files) = if same_vector || field == "stale-link:message" || !harness::may_shrink() {
                (cfg.clone(), case.files.clone())
            } else {
                let b = minimise_configs(sb, &case.files, &layout, topo.as_deref(), &c0, &cfg, &field);
                let f = minimise_files(sb, &case.files, &c0, &b, &field);
                (b, f)
            };
            let what = format!(
                "C13: `{}` differs between two executions of project {} that differ only in {}",
                field,
                case.name,
                if same_vector {
                    "nothing (identical decision vector: nondeterminism outside every seam)".to_string()
                } else {
                    let mut d = Vec::new();
                    if cfg_b.entropy != c0.entropy {
                        d.push("hash seed (process entropy)");
                    }
                    if cfg_b.readdir != c0.readdir {
                        d.push("directory enumeration order");
                    }
                    if cfg_b.order != c0.order {
                        d.push("order of list arguments / a source file kept behind a symbolic link");
                    }
                    d.join(" + ")
                }
            );
            violation = Some(Violation {
                property: PROP.into(),
                class: format!("nondeterministic:{}", field_class(&field)),
                key: json!({"class": "nondeterministic", "field": field_class(&field)}),
                what,
                replay: json!({
                    "kind": if field == "stale-link:message" { "c13-stale-link" } else { "c13" },
                    "gen_index": case.gen_index,
                    "case": case.name,
                    "field": field,
                    "same_vector": same_vector,
                    "config_a": c0,
                    "config_b": cfg_b,
                    "files": files_json(&files),
                }),
            });
            break;
        }
    }
    // A long-lived host (LSP, playground) compiles many programs on one thread: what was
    // compiled before must not change the result. The neighbouring case is compiled first on the
    // same simulated-process thread, then this one; the result must equal the fresh-thread one.
    if violation.is_none() {
        if let Some(prev) = prev_files {
            let mut both = case.files.clone();
            for (k, v) in prev {
                both.insert(format!("zzprev/{k}"), v.clone());
            }
            sb.materialise(&both);
            let p1 = sb.path("zzprev/main.gom");
            let p2 = sb.path("main.gom");
            let spec = ProcSpec { entropy: c0.entropy, readdir: c0.readdir, ..Default::default() };
            let r = crate::world::run_process(&sb.root, &spec, None, move || {
                let _ = crate::cli::entry(&["goml".to_string(), "run".to_string(), p1]);
                let mut args = vec!["goml".to_string(), "run".to_string()];
                args.extend(ops::ALL_DUMPS.iter().map(|d| d.to_string()));
                args.push(p2);
                crate::cli::entry(&args)
            });
            procs += 2;
            // stdout holds the first program's nothing (no dumps requested) and the second's dumps
            let (sum, _) = ops::summarise_run(sb, &r);
            let mut after = Observed::new();
            let mut sum2 = sum.clone();
            if let Some(crate::cli::CliOut::Compiled(c)) = &r.value {
                sum2.go_text = c.go_text.clone();
            }
            observe_run(&sum2, &mut after);
            for key in ["run:verdict", "run:go", "run:diagnostics", "dump:Go", "dump:Core", "dump:Typed AST"] {
                if base.get(key) != after.get(key) && base.contains_key(key) {
                    violation = Some(Violation {
                        property: PROP.into(),
                        class: "nondeterministic:compile-history".into(),
                        key: json!({"class": "nondeterministic", "field": "compile-history"}),
                        what: format!("C13: `{}` of project {} differs when another project was compiled before it on the same thread (state leaking between compilations)", key, case.name),
                        replay: json!({"kind": "c13-history", "case": case.name, "field": key, "files": files_json(&both), "config_a": c0}),
                    });
                    break;
                }
            }
        }
    }
    let sample = Some(json!({
        "project": case.name,
        "packages": layout.pkgs.values().map(|p| json!({"name": p.name, "files": p.files, "imports": p.imports})).collect::<Vec<_>>(),
        "configs": runs + 1,
        "verdict": base.get("run:verdict"),
        "separate": base.get("sep:verdict"),
        "compared_fields": base.keys().collect::<Vec<_>>(),
    }));
    CaseResult { violation, procs, fingerprints, nontrivial: nt, sample, dir_orders, digest }
}

/// Child mode: print one line per (case index, sha of everything observed under config 0).
pub fn child_digests(opts: &Opts, warm: u64, indices: &[usize]) {
    crate::warm_builtins(warm);
    let all = cases(opts);
    let sb = Sandbox::new("c13child").expect("sandbox");
    for &i in indices {
        let case = &all[i];
        let layout = Layout::scan(&case.files);
        let topo = if layout.pkgs.contains_key("Main") {
            layout.topo(&mut Prng::new(mix(&[opts.seed, i as u64, purpose("topo")])))
        } else {
            None
        };
        let c0 = config(opts.seed, i as u64, 0);
        let (obs, _, _) = execute(&sb, &case.files, &layout, topo.as_deref(), &c0);
        println!("DIGEST {} {}", i, sha(serde_json::to_string(&obs).unwrap().as_bytes()));
    }
}

pub fn run(opts: &Opts) -> i32 {
    let all = cases(opts);
    let runs = if opts.tier == Tier::Quick { 8 } else { 48 };
    let mut ev = Evidence::new(
        PROP,
        "exploration",
        "cases = repository corpus (pipeline + package + error programs) + generated multi-package projects (every third with several independent errors); each case is executed under R+1 decision vectors (entropy seed -> HashMap seeds, readdir permutation, order of --input/--interface-path/link inputs; vector 0 repeated) through `run --dump-*` and check+build+link; distinct = distinct (project, decision vector); non-trivial = project with >=2 packages, or a package with >=2 imports or >=2 files, or >=2 diagnostics",
    );
    ev.components_real = harness::REAL_COMPONENTS.iter().map(|s| s.to_string()).collect();
    ev.components_stub = harness::STUB_COMPONENTS.iter().map(|s| s.to_string()).collect();
    ev.assumptions = vec![
        "a simulated process is a fresh OS thread with its own entropy stream; process-global OnceLock caches are warmed once per OS process with a seed, and the cross-process phase compares OS processes warmed differently".into(),
        "no simulated time: the compiler reads no clock".into(),
    ];
    let results = harness::parallel_with(
        all.len(),
        opts.workers,
        |w| Sandbox::new(&format!("c13w{w}")).expect("sandbox"),
        |sb, i| {
            // the "previous compilation" of case i is case i+1 (same kind of project nearby)
            let prev = if all[i].files.len() <= 12 && all[(i + 1) % all.len()].files.len() <= 12 { Some(&all[(i + 1) % all.len()].files) } else { None };
            check_case(sb, opts, i, &all[i], runs, prev)
        },
    );
    let mut violations = Vec::new();
    let mut nontrivial_cases = 0u64;
    let mut all_dir_orders = std::collections::BTreeSet::new();
    harness::print_run_digest(&results.iter().map(|r| r.digest.clone()).collect::<Vec<_>>());
    for (i, r) in results.into_iter().enumerate() {
        ev.evaluations += r.procs;
        if r.nontrivial {
            nontrivial_cases += 1;
            ev.distinct.extend(r.fingerprints);
            if i % 7 == 0 || ev.samples.is_empty() {
                if let Some(s) = r.sample {
                    ev.sample(s);
                }
            }
        }
        all_dir_orders.extend(r.dir_orders);
        if let Some(v) = r.violation {
            violations.push(v);
        }
    }
    ev.fault("layout:source-file-behind-a-symbolic-link", SYMLINKED.load(std::sync::atomic::Ordering::Relaxed));
    ev.extra.insert("projects".into(), json!(all.len()));
    ev.extra.insert("projects_nontrivial".into(), json!(nontrivial_cases));
    ev.extra.insert("decision_vectors_per_project".into(), json!(runs + 1));
    ev.extra.insert("distinct_directory_orders_observed".into(), json!(all_dir_orders.len()));
    ev.extra.insert("simulated_time".into(), json!("not applicable: no clock is read by the compiler"));

    // cross-OS-process phase: children warmed with different seeds must reproduce config 0
    if !opts.dry && std::env::var("VERIF_REPLAY_CHILD").is_err() {
        let nchild = if opts.tier == Tier::Quick { 2 } else { 6 };
        let step = (all.len() / 40).max(1);
        let indices: Vec<usize> = (0..all.len()).step_by(step).collect();
        let mut mismatches = Vec::new();
        let idx_arg = indices.iter().map(|i| i.to_string()).collect::<Vec<_>>().join(",");
        let mut digests: Vec<BTreeMap<usize, String>> = Vec::new();
        let exe = std::env::current_exe().expect("current_exe");
        let outs = harness::parallel(nchild, nchild, |k| {
            std::process::Command::new(&exe)
                .args(["c13-child", &format!("{}", 1000 + k), &idx_arg])
                .env("VERIF_SEED", opts.seed.to_string())
                .env("VERIF_TIER", opts.tier.name())
                .env("VERIF_SCALE", opts.scale.to_string())
                .output()
        });
        for o in outs {
            let mut m = BTreeMap::new();
            match o {
                Ok(o) if o.status.success() => {
                    for line in String::from_utf8_lossy(&o.stdout).lines() {
                        let parts: Vec<&str> = line.split_whitespace().collect();
                        if parts.len() == 3 && parts[0] == "DIGEST" {
                            m.insert(parts[1].parse::<usize>().unwrap_or(usize::MAX), parts[2].to_string());
                        }
                    }
                }
                Ok(o) => {
                    eprintln!("HARNESS ERROR: c13 child failed: {}", String::from_utf8_lossy(&o.stderr));
                    return 2;
                }
                Err(e) => {
                    eprintln!("HARNESS ERROR: cannot spawn c13 child: {e}");
                    return 2;
                }
            }
            digests.push(m);
        }
        for i in &indices {
            let first = digests[0].get(i);
            for d in digests.iter().skip(1) {
                if d.get(i) != first {
                    mismatches.push(*i);
                }
            }
        }
        ev.evaluations += (indices.len() * nchild) as u64;
        ev.probe("cross_process_comparisons", (indices.len() * (nchild - 1)) as u64);
        mismatches.sort();
        mismatches.dedup();
        for i in mismatches {
            violations.push(Violation {
                property: PROP.into(),
                class: "nondeterministic:across-os-processes".into(),
                key: json!({"class": "nondeterministic", "field": "across-os-processes"}),
                what: format!("C13: project {} compiles differently in two OS processes whose global caches were initialised under different hash seeds", all[i].name),
                replay: json!({"kind": "c13-xproc", "case": all[i].name, "index": i, "files": files_json(&all[i].files)}),
            });
        }
    }

    let nviol = violations.len();
    let outcome = harness::conclude(PROP, violations, opts, &harness::verify_in_fresh_process);
    ev.write(opts, outcome.unlisted as usize, nviol);
    println!(
        "C13 {}: {} projects ({} non-trivial), {} simulated processes, {} violations ({} known), {:.1}s",
        opts.tier.name(),
        all.len(),
        nontrivial_cases,
        ev.evaluations,
        outcome.unlisted,
        outcome.known,
        ev.start.elapsed().as_secs_f64()
    );
    outcome.exit_code
}

/// Replay: re-execute the two configurations on the world stored in the file.
pub fn replay(file: &Value) -> bool {
    let r = &file["replay"];
    let files = files_from_json(&r["files"]);
    let sb = Sandbox::new("c13replay").expect("sandbox");
    if r["kind"] == "c13-xproc" {
        // two fresh children warmed differently
        let tmp = format!("/dev/shm/gv-xproc-{}.json", std::process::id());
        std::fs::write(&tmp, serde_json::to_vec(file).unwrap()).unwrap();
        let exe = std::env::current_exe().unwrap();
        // several fresh OS processes at once (as in the cross-process phase), each warmed with
        // another seed
        let mut kids = Vec::new();
        for k in 0..8 {
            if let Ok(c) = std::process::Command::new(&exe)
                .args(["c13-xproc-one", &tmp, &format!("{}", 1000 + k)])
                .stdout(std::process::Stdio::piped())
                .stderr(std::process::Stdio::null())
                .spawn()
            {
                kids.push(c);
            }
        }
        let mut outs = Vec::new();
        for c in kids {
            if let Ok(o) = c.wait_with_output() {
                outs.push(String::from_utf8_lossy(&o.stdout).to_string());
            }
        }
        if outs.is_empty() {
            return false;
        }
        let _ = std::fs::remove_file(&tmp);
        return outs.iter().any(|o| *o != outs[0]);
    }
    let Ok(a) = serde_json::from_value::<Config>(r["config_a"].clone()) else {
        println!("replay file has no usable config_a");
        return false;
    };
    // (history replays carry only one decision vector)
    let b: Config = serde_json::from_value(r["config_b"].clone()).unwrap_or_else(|_| a.clone());
    if r["kind"] == "c13-history" {
        let field = r["field"].as_str().unwrap_or("").to_string();
        sb.materialise(&files);
        let spec = ProcSpec { entropy: a.entropy, readdir: a.readdir, ..Default::default() };
        let run = |with_prev: bool| -> Observed {
            let p1 = sb.path("zzprev/main.gom");
            let p2 = sb.path("main.gom");
            let r = crate::world::run_process(&sb.root, &spec, None, move || {
                if with_prev {
                    let _ = crate::cli::entry(&["goml".to_string(), "run".to_string(), p1]);
                }
                let mut args = vec!["goml".to_string(), "run".to_string()];
                args.extend(ops::ALL_DUMPS.iter().map(|d| d.to_string()));
                args.push(p2);
                crate::cli::entry(&args)
            });
            let (sum, _) = ops::summarise_run(&sb, &r);
            let mut sum2 = sum.clone();
            if let Some(crate::cli::CliOut::Compiled(c)) = &r.value {
                sum2.go_text = c.go_text.clone();
            }
            let mut o = Observed::new();
            observe_run(&sum2, &mut o);
            o
        };
        let fresh = run(false);
        let after = run(true);
        println!("replayed: compile history, field `{field}` {}", if fresh.get(&field) != after.get(&field) { "differs" } else { "is equal" });
        return fresh.get(&field) != after.get(&field);
    }
    if r["kind"] == "c13-stale-link" {
        let i = r["gen_index"].as_u64().unwrap_or(0);
        let mut p = Prng::derive(file["seed"].as_u64().unwrap_or(0), i, "c13-project");
        let cfg = GenCfg::swarm(&mut p);
        let proj = generate(&mut p, &cfg);
        let ma = stale_link_message(&sb, &proj, &a);
        let mb = stale_link_message(&sb, &proj, &b);
        println!("replayed: link of a workspace with several stale dependents says\n  A: {:?}\n  B: {:?}", ma, mb);
        return ma != mb;
    }
    let field = r["field"].as_str().unwrap_or("").to_string();
    let layout = Layout::scan(&files);
    let topo = layout.topo(&mut Prng::new(0));
    let tries = if r["same_vector"] == true { 64 } else { 1 };
    for _ in 0..tries {
        let oa = execute(&sb, &files, &layout, topo.as_deref(), &a).0;
        let ob = execute(&sb, &files, &layout, topo.as_deref(), &b).0;
        if oa.get(&field) != ob.get(&field) {
            println!("replayed: field `{}` differs", field);
            return true;
        }
    }
    false
}

pub fn xproc_one(path: &str, warm: u64) {
    crate::warm_builtins(warm);
    let file: Value = serde_json::from_slice(&std::fs::read(path).unwrap()).unwrap();
    let files = files_from_json(&file["replay"]["files"]);
    let sb = Sandbox::new("c13x").expect("sandbox");
    let layout = Layout::scan(&files);
    let topo = layout.topo(&mut Prng::new(0));
    let c0 = Config { entropy: 1, readdir: 1, order: 1 };
    let (obs, _, _) = execute(&sb, &files, &layout, topo.as_deref(), &c0);
    println!("{}", sha(serde_json::to_string(&obs).unwrap().as_bytes()));
}
