//! C04 — never crashes or hangs, always a result or a diagnostic (I/O-facing part).
//!
//! The four entry points run as simulated processes over a sandbox holding a corpus or generated
//! project and, for check/build/link, a genuine artifact set produced beforehand; the simulator
//! injects failing / partial system calls, crashes, and corrupted or half-written stored bytes.
//! Oracle per operation: ends Ok or Err (never panicked / hung), an Err carries a non-empty
//! message, every compile diagnostic has a stage and message and a range that lies inside the
//! text of some file of the project on a character boundary, and the same operation on the
//! repaired store behaves as before (no poisoned global state).

use crate::cli::CliOut;
use crate::faults::{self, ByteFault};
use crate::genp::project::{GenCfg, generate};
use crate::harness::{self, Evidence, Opts, Tier, Violation};
use crate::ops::{self, Layout, s};
use crate::prng::{Prng, mix, purpose};
use crate::props::c13::{files_from_json, files_json};
use crate::shim::{Action, Call, FaultRule};
use crate::world::{Exit, Files, ProcSpec, Sandbox, sha};
use serde_json::{Value, json};
use std::collections::BTreeMap;

pub const PROP: &str = "C04";

#[derive(Clone, Debug, PartialEq, serde::Serialize, serde::Deserialize)]
pub enum StoreFault {
    None,
    /// corrupt bytes of this file (relative path)
    Bytes { path: String, fault: ByteFault },
    /// single-field JSON corruption of an artifact
    Field { path: String, pick: u64 },
    /// foreign-version artifact
    Foreign { path: String, pick: u64 },
    /// two files exchange content
    Swap { a: String, b: String },
    /// file removed
    Remove { path: String },
    /// a directory appears where a file was expected / an empty package directory
    DirInsteadOfFile { path: String },
    /// file replaced by arbitrary text
    Replace { path: String, text: String },
    /// file cut at an exact byte offset (a half-written file)
    TruncateAt { path: String, at: usize },
    /// one bit flipped at an exact position
    FlipAt { path: String, at: usize, bit: u8 },
    /// a symbolic link named like a source file appears in a package directory: dangling (an
    /// editor lock file such as `.#x.gom`), pointing to itself (loop), or to a directory
    Symlink { path: String, kind: u8 },
    /// one character of one string field of an artifact replaced (exact position): the header
    /// fields a reader validates and echoes in its messages (names, versions, hashes)
    FieldChar { path: String, pointer: String, at: usize, ch: char },
    /// one node of a genuine artifact wrapped into `depth` nested arrays: deep nesting in the
    /// middle of an otherwise ordinary file (whatever precedes it has been scanned normally)
    /// a source file whose *name* is not valid UTF-8 appears in a package directory ("" = root)
    NonUtf8Name { dir: String },
    /// a genuine recursive node of an artifact pumped: an object that contains a descendant with
    /// the same keys is nested into itself until the file is `depth` levels deep — deep nesting
    /// that is well-typed for the reader
    DeepPump { path: String, pick: u64, depth: usize },
    DeepSplice {
        path: String,
        pick: u64,
        depth: usize,
        /// instead of wrapping a node: an additional (unknown) field with a deeply nested value at
        /// the end of an object, which a tolerant reader skips recursively
        #[serde(default)]
        extra_field: bool,
    },
}

#[derive(Clone, Debug, serde::Serialize, serde::Deserialize)]
pub struct OpSpec {
    pub args: Vec<String>, // with {ROOT} placeholder for the sandbox root
    pub entry: String,
}

#[derive(Clone, Debug, serde::Serialize, serde::Deserialize)]
pub struct FaultPlan {
    pub store: StoreFault,
    pub spec: ProcSpec,
}

fn expand(sb: &Sandbox, args: &[String]) -> Vec<String> {
    args.iter().map(|a| a.replace("{ROOT}", &sb.root)).collect()
}

pub struct Observed {
    pub exit: Exit,
    pub counts: BTreeMap<&'static str, u32>,
    pub syscalls: u32,
    pub fired: Vec<String>,
    pub problems: Vec<(String, String)>, // (class, detail)
    /// files the operation created or changed (path -> digest), when it reported success
    pub written: Option<BTreeMap<String, String>>,
    /// sandbox-relative paths the operation opened
    pub opened: std::collections::BTreeSet<String>,
    /// the operation was run a second time, fault-free, on what the interrupted run left behind
    pub reran_on_leftovers: bool,
}

fn apply_store_fault(sb: &Sandbox, f: &StoreFault) -> bool {
    match f {
        StoreFault::None => true,
        StoreFault::Bytes { path, fault } => match sb.read(path) {
            Some(b) => {
                sb.write(path, &faults::apply_byte_fault(&b, fault));
                true
            }
            None => false,
        },
        StoreFault::Field { path, pick } => {
            let Some(b) = sb.read(path) else { return false };
            let Ok(doc) = serde_json::from_slice::<Value>(&b) else { return false };
            let ptrs = faults::all_pointers(&doc);
            if ptrs.is_empty() {
                return false;
            }
            let mut pr = Prng::new(*pick);
            for _ in 0..8 {
                let ptr = ptrs[pr.usize(ptrs.len())].clone();
                if let Some((nd, _)) = faults::mutate_field(&doc, &ptr, &mut pr) {
                    sb.write(path, serde_json::to_string_pretty(&nd).unwrap().as_bytes());
                    return true;
                }
            }
            false
        }
        StoreFault::Foreign { path, pick } => {
            let Some(b) = sb.read(path) else { return false };
            let mut pr = Prng::new(*pick);
            let nb = if path.ends_with(".core") {
                faults::foreign_version_core(&b, &mut pr).map(|x| x.0)
            } else {
                faults::foreign_version_interface(&b, &mut pr)
            };
            match nb {
                Some(nb) => {
                    sb.write(path, &nb);
                    true
                }
                None => false,
            }
        }
        StoreFault::Swap { a, b } => match (sb.read(a), sb.read(b)) {
            (Some(x), Some(y)) => {
                sb.write(a, &y);
                sb.write(b, &x);
                true
            }
            _ => false,
        },
        StoreFault::Remove { path } => {
            sb.remove(path);
            true
        }
        StoreFault::DirInsteadOfFile { path } => {
            sb.remove(path);
            sb.mkdir(path);
            true
        }
        StoreFault::Replace { path, text } => {
            sb.write(path, text.as_bytes());
            true
        }
        StoreFault::TruncateAt { path, at } => match sb.read(path) {
            Some(b) => {
                sb.write(path, &b[..(*at).min(b.len())]);
                true
            }
            None => false,
        },
        StoreFault::Symlink { path, kind } => {
            let full = sb.path(path);
            let _ = std::fs::remove_file(&full);
            let target = match kind % 3 {
                0 => "no-such-target.gom".to_string(),
                1 => full.clone(),
                _ => sb.root.clone(),
            };
            std::os::unix::fs::symlink(target, &full).is_ok()
        }
        StoreFault::FieldChar { path, pointer, at, ch } => {
            let Some(b) = sb.read(path) else { return false };
            let Ok(mut doc) = serde_json::from_slice::<Value>(&b) else { return false };
            let Some(Value::String(st)) = doc.pointer(pointer).cloned() else { return false };
            let mut cs: Vec<char> = st.chars().collect();
            if cs.is_empty() {
                return false;
            }
            let i = (*at).min(cs.len() - 1);
            cs[i] = *ch;
            *doc.pointer_mut(pointer).unwrap() = Value::String(cs.into_iter().collect());
            sb.write(path, serde_json::to_string_pretty(&doc).unwrap().as_bytes());
            true
        }
        StoreFault::NonUtf8Name { dir } => {
            use std::os::unix::ffi::OsStrExt;
            let pkg = if dir.is_empty() { "Main" } else { dir.rsplit('/').next().unwrap_or("Main") };
            let mut full = sb.path(dir).into_bytes();
            full.extend_from_slice(b"/caf\xe9_zz.gom");
            let path = std::path::Path::new(std::ffi::OsStr::from_bytes(&full));
            std::fs::write(path, format!("package {pkg}\n")).is_ok()
        }
        StoreFault::DeepPump { path, pick, depth } => {
            let Some(b) = sb.read(path) else { return false };
            let Ok(mut doc) = serde_json::from_slice::<Value>(&b) else { return false };
            let keys = |v: &Value| -> Option<Vec<String>> {
                match v {
                    Value::Object(m) if !m.is_empty() => Some(m.keys().cloned().collect()),
                    _ => None,
                }
            };
            let ptrs = faults::all_pointers(&doc);
            let objs: Vec<(String, Vec<String>)> = ptrs.iter().filter_map(|q| doc.pointer(q).and_then(keys).map(|k| (q.clone(), k))).collect();
            let mut pairs: Vec<(String, String)> = Vec::new();
            for (a, ka) in &objs {
                for (d, kd) in &objs {
                    if d.len() > a.len() && d.starts_with(a.as_str()) && d.as_bytes()[a.len()] == b'/' && ka == kd {
                        pairs.push((a.clone(), d.clone()));
                        if pairs.len() > 4000 {
                            break;
                        }
                    }
                }
            }
            if pairs.is_empty() {
                return false;
            }
            let (a, d) = pairs[Prng::new(*pick).usize(pairs.len())].clone();
            let levels = d[a.len()..].matches('/').count().max(1);
            let inner = serde_json::to_string(doc.pointer(&d).unwrap()).unwrap();
            *doc.pointer_mut(&d).unwrap() = Value::String("@@INNER@@".to_string());
            let ctx = serde_json::to_string(doc.pointer(&a).unwrap()).unwrap();
            let Some((pre, post)) = ctx.split_once("\"@@INNER@@\"") else { return false };
            *doc.pointer_mut(&a).unwrap() = Value::String("@@SPLICE@@".to_string());
            let times = depth / levels + 1;
            let mut pumped = String::with_capacity(times * ctx.len() + inner.len());
            for _ in 0..times {
                pumped.push_str(pre);
            }
            pumped.push_str(&inner);
            for _ in 0..times {
                pumped.push_str(post);
            }
            let text = serde_json::to_string_pretty(&doc).unwrap();
            sb.write(path, text.replacen("\"@@SPLICE@@\"", &pumped, 1).as_bytes());
            true
        }
        StoreFault::DeepSplice { path, pick, depth, extra_field } => {
            let Some(b) = sb.read(path) else { return false };
            let Ok(mut doc) = serde_json::from_slice::<Value>(&b) else { return false };
            let mut ptrs = faults::all_pointers(&doc);
            let inner;
            if *extra_field {
                ptrs.retain(|q| doc.pointer(q).map(|v| v.is_object()).unwrap_or(false));
                ptrs.push(String::new());
                let ptr = ptrs[Prng::new(*pick).usize(ptrs.len())].clone();
                let Some(Value::Object(m)) = doc.pointer_mut(&ptr) else { return false };
                m.insert("zz_extra".to_string(), Value::String("@@SPLICE@@".to_string()));
                inner = "1".to_string();
            } else {
                if ptrs.is_empty() {
                    return false;
                }
                let ptr = ptrs[Prng::new(*pick).usize(ptrs.len())].clone();
                let Some(node) = doc.pointer_mut(&ptr) else { return false };
                inner = serde_json::to_string(node).unwrap();
                *node = Value::String("@@SPLICE@@".to_string());
            }
            let text = serde_json::to_string_pretty(&doc).unwrap();
            let wrapped = format!("{}{}{}", "[".repeat(*depth), inner, "]".repeat(*depth));
            sb.write(path, text.replacen("\"@@SPLICE@@\"", &wrapped, 1).as_bytes());
            true
        }
        StoreFault::FlipAt { path, at, bit } => match sb.read(path) {
            Some(mut b) if !b.is_empty() => {
                let i = (*at).min(b.len() - 1);
                b[i] ^= 1 << (bit % 8);
                sb.write(path, &b);
                true
            }
            _ => false,
        },
    }
}

/// Execute one operation under one fault plan on a freshly materialised world and judge it.
thread_local! {
    /// (marker file, case name): when set, every operation is announced in the marker file before
    /// it runs, so that the parent process can tell what killed a child (abort, stack overflow,
    /// memory exhaustion, hang).
    static MARKER: std::cell::RefCell<Option<(String, String)>> = const { std::cell::RefCell::new(None) };
}

fn announce(op: &OpSpec, plan: &FaultPlan) {
    MARKER.with(|m| {
        if let Some((path, case)) = &*m.borrow() {
            let v = json!({"case": case, "op": op, "plan": plan});
            let _ = std::fs::write(path, serde_json::to_vec(&v).unwrap());
        }
    });
}

pub fn execute(sb: &Sandbox, base: &Files, op: &OpSpec, plan: &FaultPlan) -> Observed {
    announce(op, plan);
    sb.materialise(base);
    apply_store_fault(sb, &plan.store);
    let before = sb.snapshot();
    let texts: Vec<Vec<u8>> = before.iter().filter(|(k, _)| k.ends_with(".gom")).map(|(_, v)| v.clone()).collect();
    let args = expand(sb, &op.args);
    let t0 = std::time::Instant::now();
    let res = ops::goml(sb, &plan.spec, args);
    if let Ok(path) = std::env::var("VERIF_SLOW_LOG") {
        let el = t0.elapsed().as_secs_f64();
        if el > 2.0 {
            use std::io::Write;
            if let Ok(mut f) = std::fs::OpenOptions::new().create(true).append(true).open(path) {
                let _ = writeln!(f, "{el:.1}s syscalls={} exit={} op={} {:?} store={:?} chunk={} plan={:?}", res.syscalls, res.exit.class(), op.entry, op.args.last(), plan.store, plan.spec.chunk, plan.spec.plan);
            }
        }
    }
    let mut counts: BTreeMap<&'static str, u32> = BTreeMap::new();
    for e in &res.log {
        *counts.entry(e.call).or_insert(0) += 1;
    }
    let opened: std::collections::BTreeSet<String> = res.log.iter().filter(|e| e.call == "open").filter_map(|e| e.path.strip_prefix("/sim/").map(|x| x.to_string())).collect();
    let mut problems = Vec::new();
    match &res.exit {
        Exit::Panicked(m) => problems.push(("panic".to_string(), sb.normalise(m))),
        Exit::Hung => problems.push(("hang".to_string(), "operation did not finish within the watchdog limit".to_string())),
        Exit::Err(m) => {
            if m.trim().is_empty() {
                problems.push(("empty-error".to_string(), "operation failed without any message".to_string()));
            }
        }
        Exit::Ok => {
            if let Some(CliOut::CompileError { kind, diags, formatted }) = &res.value {
                let errors: Vec<_> = diags.iter().filter(|d| d.error).collect();
                if errors.is_empty() {
                    problems.push(("rejected-without-diagnostic".to_string(), format!("compile error of kind {kind} without any error diagnostic")));
                }
                for d in diags {
                    if d.message.trim().is_empty() || d.stage.trim().is_empty() {
                        problems.push(("diagnostic-without-message-or-stage".to_string(), format!("{d:?}")));
                    }
                    if let Some((a, b)) = d.range {
                        let inside = a <= b
                            && texts.iter().any(|t| {
                                (b as usize) <= t.len()
                                    && std::str::from_utf8(t).map(|s| s.is_char_boundary(a as usize) && s.is_char_boundary(b as usize)).unwrap_or(false)
                            });
                        if !inside {
                            problems.push((
                                "position-outside-text".to_string(),
                                format!("diagnostic {:?} carries range {a}..{b} which lies in no source text of the project", d.message),
                            ));
                        } else if d.stage.eq_ignore_ascii_case("parser") {
                            // a parser diagnostic points at what the parser objects to: parsing
                            // the texts on disk again (the parser is a pure function of the
                            // text) must yield a diagnostic with exactly this range for one of them
                            let reproduced = texts.iter().filter_map(|t| std::str::from_utf8(t).ok()).any(|t| {
                                parser::parse(std::path::Path::new("x.gom"), t)
                                    .diagnostics
                                    .iter()
                                    .any(|pd| pd.range().map(|r| (u32::from(r.start()), u32::from(r.end()))) == Some((a, b)))
                            });
                            if !reproduced {
                                problems.push((
                                    "position-outside-text".to_string(),
                                    format!("parser diagnostic {:?} carries range {a}..{b}, but parsing the source texts of the project yields no diagnostic at that position (the position does not refer to the text on disk)", d.message),
                                ));
                            }
                        }
                    }
                }
                let _ = formatted;
            }
        }
        Exit::Killed => {}
    }
    // a reported success is a promise about the store: what check / build / link wrote
    let mut written = None;
    if matches!(res.exit, Exit::Ok) && matches!(res.value, Some(CliOut::Done)) {
        let after = sb.snapshot();
        let mut w = BTreeMap::new();
        for (k, v) in &after {
            if before.get(k) != Some(v) {
                w.insert(k.clone(), sha(sb.normalise(&String::from_utf8_lossy(v)).as_bytes()));
            }
        }
        if let Some(f) = res.fired.iter().find(|f| f.starts_with("write:E")) {
            problems.push((
                "success-after-failed-write".to_string(),
                format!("a write to the store failed ({f}) and `goml {}` still reported success", op.entry),
            ));
        }
        written = Some(w);
    }
    // `run` writes nothing into the store; what it promises is the program it emits
    if matches!(res.exit, Exit::Ok) {
        if let Some(CliOut::Compiled(c)) = &res.value {
            let mut w = BTreeMap::new();
            w.insert("<emitted Go>".to_string(), sha(c.go_text.as_bytes()));
            written = Some(w);
        }
    }
    Observed { exit: res.exit, counts, syscalls: res.syscalls, fired: res.fired, problems, written, opened, reran_on_leftovers: false }
}

/// `execute`, plus the comparison with what the fault-free run of the same operation wrote: under
/// transient I/O faults alone (no stored byte changed, no lie about which files exist) an operation
/// that reports success must have written exactly what it writes without faults.
/// hangs this worker process has met so far
pub static HANGS_SEEN: std::sync::atomic::AtomicU32 = std::sync::atomic::AtomicU32::new(0);

pub fn execute_vs(sb: &Sandbox, base: &Files, op: &OpSpec, plan: &FaultPlan, clean_written: Option<&BTreeMap<String, String>>) -> Observed {
    let mut obs = execute(sb, base, op, plan);
    // what a killed or failed invocation leaves behind (half-written artifacts, staging and lock
    // files) is the input of the next one: the same operation, fault-free, on the store *as it
    // was left* must again end with success or a diagnostic
    let writes = matches!(op.entry.as_str(), "check" | "build" | "link");
    let interrupted = obs.exit == Exit::Killed
        || (matches!(obs.exit, Exit::Err(_)) && obs.fired.iter().any(|f| f.starts_with("write:") || f.starts_with("rename:") || f.starts_with("fsync:") || f.starts_with("unlink:") || f.starts_with("mkdir:")));
    if writes && interrupted && obs.problems.is_empty() {
        let spec = ProcSpec { entropy: plan.spec.entropy ^ 0x1ef7, readdir: plan.spec.readdir, ..Default::default() };
        let again = ops::goml(sb, &spec, expand(sb, &op.args));
        obs.reran_on_leftovers = true;
        match &again.exit {
            Exit::Panicked(m) => obs.problems.push(("panic-on-leftovers".to_string(), format!("the next invocation, on what the interrupted one left behind, panics: {}", sb.normalise(m)))),
            Exit::Hung => obs.problems.push(("hang-on-leftovers".to_string(), "the next invocation, on what the interrupted one left behind, does not terminate".to_string())),
            _ => {}
        }
    }
    if plan.store != StoreFault::None {
        return obs;
    }
    let visible_world_changed = obs.fired.iter().any(|f| f.starts_with("stat:") || f.contains("ENOENT") || f.contains("ENOTDIR"));
    if visible_world_changed {
        return obs;
    }
    if let (Some(w), Some(cw)) = (&obs.written, clean_written) {
        if w != cw && !obs.fired.is_empty() {
            let diff: std::collections::BTreeSet<&String> = w.keys().chain(cw.keys()).filter(|k| w.get(*k) != cw.get(*k)).collect();
            obs.problems.push((
                "success-with-different-output".to_string(),
                format!("`goml {}` reported success under {:?} but wrote something else than without faults: {:?}", op.entry, obs.fired, diff),
            ));
        }
    }
    obs
}

const OPEN_ERRNOS: [i32; 6] = [libc::EIO, libc::EACCES, libc::ENOENT, libc::EISDIR, libc::ELOOP, libc::EMFILE];
const WRITE_ERRNOS: [i32; 3] = [libc::ENOSPC, libc::EIO, libc::EDQUOT];

/// The catalogue of single-syscall faults for a call kind.
fn actions_for(call: Call) -> Vec<Action> {
    match call {
        Call::Open => OPEN_ERRNOS.iter().map(|e| Action::Errno(*e)).collect(),
        Call::Read => vec![Action::Errno(libc::EIO), Action::Short(1), Action::Short(7), Action::Errno(libc::EINTR)],
        Call::Write => {
            let mut v: Vec<Action> = WRITE_ERRNOS.iter().map(|e| Action::Errno(*e)).collect();
            v.push(Action::Short(3));
            v.push(Action::ShortThenErr(5, libc::ENOSPC));
            v.push(Action::CrashAfterBytes(9));
            v
        }
        Call::Opendir => vec![Action::Errno(libc::EACCES), Action::Errno(libc::ENOENT), Action::Errno(libc::ENOTDIR), Action::Errno(libc::EMFILE)],
        Call::Readdir => vec![Action::Errno(libc::EIO)],
        Call::Stat => vec![Action::Errno(libc::EIO), Action::StatLie(true), Action::StatLie(false), Action::Errno(libc::EACCES)],
        Call::Mkdir => vec![Action::Errno(libc::EACCES), Action::Errno(libc::ENOSPC), Action::Errno(libc::EEXIST)],
        Call::Close => vec![],
        Call::Rename => vec![Action::Errno(libc::EIO), Action::Errno(libc::EACCES), Action::Errno(libc::ENOSPC)],
        Call::Unlink => vec![Action::Errno(libc::EIO), Action::Errno(libc::EACCES)],
        Call::Sync => vec![Action::Errno(libc::EIO), Action::Errno(libc::ENOSPC)],
    }
}

const CALLS: [Call; 10] = [Call::Open, Call::Read, Call::Write, Call::Opendir, Call::Readdir, Call::Stat, Call::Mkdir, Call::Rename, Call::Unlink, Call::Sync];

fn random_plan(p: &mut Prng, baseline: &Observed, files: &[String], artifacts: &[String], entropy: u64) -> FaultPlan {
    let mut spec = ProcSpec { entropy, readdir: p.next_u64(), ..Default::default() };
    let mut store = StoreFault::None;
    let nf = 1 + p.usize(3);
    for _ in 0..nf {
        match p.below(10) {
            0..=5 => {
                // a syscall fault at a position that exists in the fault-free run
                let avail: Vec<Call> = CALLS.iter().copied().filter(|c| baseline.counts.get(c.name()).copied().unwrap_or(0) > 0).collect();
                if avail.is_empty() {
                    continue;
                }
                let call = *p.pick(&avail);
                let n = baseline.counts[call.name()];
                let acts = actions_for(call);
                if acts.is_empty() {
                    continue;
                }
                spec.plan.push(FaultRule { call, nth: p.below(n as u64) as u32, action: p.pick(&acts).clone() });
            }
            6 => spec.crash_at = Some(p.below(baseline.syscalls.max(1) as u64) as u32),
            7 => spec.chunk = 1 + p.usize(16),
            _ => {
                // stored bytes: a source or artifact file the operation may read
                let pool: Vec<&String> = files.iter().chain(artifacts.iter()).collect();
                if pool.is_empty() {
                    continue;
                }
                let path = (*p.pick(&pool)).clone();
                let is_art = path.ends_with(".interface") || path.ends_with(".core");
                store = match p.below(if is_art { 8 } else { 6 }) {
                    0 | 1 => StoreFault::Bytes { path, fault: faults::random_byte_fault(p) },
                    2 => StoreFault::Remove { path },
                    3 => StoreFault::DirInsteadOfFile { path },
                    4 => {
                        let text = match p.below(if is_art { 8 } else { 5 }) {
                            // artifacts only (the property excepts unboundedly nested *programs*):
                            // nesting far beyond any reader's limit, nesting just below it, and
                            // deep nesting inside an otherwise plausible object
                            5 => "[".repeat(200_000),
                            6 => format!("{}1{}", "[".repeat(6_000), "]".repeat(6_000)),
                            7 => format!("{{\"package\": \"Main\", \"core_ir\": {}{}}}", "{\"a\":".repeat(3_000), "1".to_string() + &"}".repeat(3_000)),
                            0 => String::new(),
                            1 => "package".to_string(),
                            2 => "package Main\nimport Builtin\nfn main() -> unit { () }\n".to_string(),
                            3 => "\u{feff}package Main\nfn main( {{{{ \"unterminated\n".to_string(),
                            _ => "null".to_string(),
                        };
                        StoreFault::Replace { path, text }
                    }
                    5 => {
                        let other = (*p.pick(&pool)).clone();
                        StoreFault::Swap { a: path, b: other }
                    }
                    6 => StoreFault::Field { path, pick: p.next_u64() },
                    _ => StoreFault::Foreign { path, pick: p.next_u64() },
                };
            }
        }
    }
    FaultPlan { store, spec }
}

pub struct Case {
    pub name: String,
    pub files: Files,
    /// abstract project (generated cases): lets the world contain a *stale* artifact set
    pub proj: Option<crate::genp::project::Project>,
}

pub fn cases(opts: &Opts) -> Vec<Case> {
    let mut out: Vec<Case> = ops::corpus().into_iter().map(|c| Case { name: c.name, files: c.files, proj: None }).collect();
    // many import paths to the same packages: L layers of two packages, each importing both
    // packages of the next layer (2^L paths; package ordering has to stay linear)
    for layers in [12usize, 36] {
        let mut files = Files::new();
        files.insert("main.gom".to_string(), b"package Main\nimport La0\nimport Lb0\n\nfn main() -> unit {\n    string_println(int32_to_string(La0::f() + Lb0::f()))\n}\n".to_vec());
        for k in 0..layers {
            for side in ["La", "Lb"] {
                let body = if k + 1 < layers {
                    format!("package {side}{k}\nimport La{n}\nimport Lb{n}\n\nfn f() -> int32 {{\n    if 0 < 1 {{ 1 }} else {{ La{n}::f() + Lb{n}::f() }}\n}}\n", n = k + 1)
                } else {
                    format!("package {side}{k}\n\nfn f() -> int32 {{\n    1\n}}\n")
                };
                files.insert(format!("{side}{k}/lib.gom"), body.into_bytes());
            }
        }
        out.push(Case { name: format!("layered/{layers}"), files, proj: None });
    }
    let n = opts.n(440, 600);
    for i in 0..n {
        let mut p = Prng::derive(opts.seed, i as u64, "c04-project");
        let cfg = GenCfg::swarm(&mut p);
        let mut proj = generate(&mut p, &cfg);
        let mut name = format!("gen/{i}");
        if i % 5 == 4 {
            let pi = p.usize(proj.pkgs.len());
            proj.pkgs[pi].raw = crate::genp::variants::multi_error_text(&mut p);
            name.push_str("+errors");
        }
        if i % 5 == 3 {
            // an illegal *configuration* (import cycle, misnamed or missing package, orphan impl,
            // use without import, ...): the compiler must end with a diagnostic here as well
            use crate::genp::variants::{ILLEGAL_KINDS, ODD_LAYOUTS, inject, odd_layout};
            if (i / 5) % 3 == 2 {
                let form = ((i / 15) % ODD_LAYOUTS as usize) as u8;
                let (files, _) = odd_layout(&proj, form, &mut p);
                out.push(Case { name: format!("{name}+odd-layout:{form}"), files, proj: None });
                continue;
            }
            let kind = ILLEGAL_KINDS[(i / 5) % ILLEGAL_KINDS.len()].clone();
            if let Some((_, bad, _)) = inject(&proj, &kind, &mut p) {
                out.push(Case { name: format!("{name}+illegal:{kind:?}"), files: bad, proj: None });
                continue;
            }
        }
        let keep = if i % 5 == 4 { None } else { Some(proj.clone()) };
        out.push(Case { name, files: proj.render(), proj: keep });
    }
    out
}

/// The world of a case: sources plus a genuine artifact set, and the operations over it.
pub fn prepare(sb: &Sandbox, case: &Case) -> (Files, Vec<OpSpec>, Vec<String>, Vec<String>) {
    let layout = Layout::scan(&case.files);
    sb.materialise(&case.files);
    let mut opsv = vec![OpSpec { entry: "run".into(), args: vec![s("goml"), s("run"), s("{ROOT}/main.gom")] }];
    let mut artifacts = Vec::new();
    if let Some(order) = layout.topo(&mut Prng::new(1)) {
        let mut ent = Prng::new(2);
        let mut ord = Prng::new(3);
        let sep = ops::separate_build(sb, &layout, &order, &mut ent, &mut ord, false);
        for k in sep.artifacts.keys() {
            if k.ends_with(".interface") || k.ends_with(".core") {
                artifacts.push(k.clone());
            }
        }
        for name in &order {
            if case.name.starts_with("layered/") {
                // (dozens of packages: the whole-program run and the link are what matters here)
                break;
            }
            let pk = &layout.pkgs[name];
            for cmd in ["check", "build"] {
                let mut a = vec![s("goml"), s(cmd), s("--package"), name.clone(), s("--input")];
                a.extend(pk.files.iter().map(|f| format!("{{ROOT}}/{f}")));
                a.push(s("--interface-path"));
                a.push(s("{ROOT}/out"));
                a.push(s("--output"));
                a.push(format!("{{ROOT}}/out2/{name}"));
                opsv.push(OpSpec { entry: cmd.into(), args: a });
            }
            // the same build over the existing store (its own earlier output is in the way)
            let mut a = vec![s("goml"), s("build"), s("--package"), name.clone(), s("--input")];
            a.extend(pk.files.iter().map(|f| format!("{{ROOT}}/{f}")));
            a.push(s("--interface-path"));
            a.push(s("{ROOT}/out"));
            a.push(s("--output"));
            a.push(format!("{{ROOT}}/out/{name}"));
            opsv.push(OpSpec { entry: "build".into(), args: a });
        }
        // (the link operation is exercised whenever every package built, even if the fault-free
        // link itself failed or crashed: that is then reported by its baseline run)
        let builds_ok = sep.ok || sep.failure.as_ref().map(|(step, _)| step == "link").unwrap_or(false);
        if builds_ok {
            let mut a = vec![s("goml"), s("link"), s("--input")];
            a.extend(order.iter().map(|n| format!("{{ROOT}}/out/{n}.core")));
            a.push(s("--output"));
            a.push(s("{ROOT}/linked/main.go"));
            opsv.push(OpSpec { entry: "link".into(), args: a });
            // incomplete / redundant core sets: one core left out, one core offered twice
            if order.len() >= 2 {
                for skip in 0..order.len() {
                    let mut a = vec![s("goml"), s("link"), s("--input")];
                    a.extend(order.iter().enumerate().filter(|(i, _)| *i != skip).map(|(_, n)| format!("{{ROOT}}/out/{n}.core")));
                    a.push(s("--output"));
                    a.push(s("{ROOT}/linked/main.go"));
                    opsv.push(OpSpec { entry: "link".into(), args: a });
                }
                let mut a = vec![s("goml"), s("link"), s("--input")];
                a.extend(order.iter().rev().map(|n| format!("{{ROOT}}/out/{n}.core")));
                a.push(format!("{{ROOT}}/out/{}.core", order[0]));
                a.push(s("--output"));
                a.push(s("{ROOT}/linked/main.go"));
                opsv.push(OpSpec { entry: "link".into(), args: a });
            }
            // a stale artifact set: one package was edited (its enum variants / struct fields
            // swapped, or a field added) and rebuilt, its dependents were not. Offering that
            // set to `link` must end in a diagnostic, whatever the staleness check looks like.
            if let Some(proj) = &case.proj {
                let n = proj.pkgs.len();
                let cand = (1..n).find(|d| (0..n).any(|c| proj.pkgs[c].imports.contains(d)));
                if let Some(d) = cand {
                    use crate::genp::project::Edit;
                    let pk = &proj.pkgs[d];
                    let edit = if let Some(e) = pk.enums.iter().position(|e| e.variants.len() >= 2 && e.variants[0].1 != e.variants[1].1) {
                        Edit::SwapVariants { p: d, e }
                    } else if pk.enums.iter().any(|e| e.variants.len() >= 2) {
                        Edit::SwapVariants { p: d, e: pk.enums.iter().position(|e| e.variants.len() >= 2).unwrap() }
                    } else if pk.structs.iter().any(|s| s.fields.len() >= 2) {
                        Edit::SwapFields { p: d, s: pk.structs.iter().position(|s| s.fields.len() >= 2).unwrap() }
                    } else {
                        Edit::AddFn { p: d }
                    };
                    let mut edited = proj.clone();
                    edited.apply_edit(&edit, 4242);
                    // the victim stays stale: a dependent of d, not Main if possible, so that
                    // Main's own pins are all fresh and only a middle package is out of date
                    let victim = (1..n).find(|c| proj.pkgs[*c].imports.contains(&d)).or_else(|| (0..n).find(|c| proj.pkgs[*c].imports.contains(&d)));
                    for nme in &order {
                        if let Some(b) = sb.read(&format!("out/{nme}.core")) {
                            sb.write(&format!("stale/{nme}.core"), &b);
                        }
                        if let Some(b) = sb.read(&format!("out/{nme}.interface")) {
                            sb.write(&format!("stale/{nme}.interface"), &b);
                        }
                    }
                    let mut all_ok = true;
                    for nme in &order {
                        let Some(xi) = edited.pkgs.iter().position(|p| p.name == *nme) else { continue };
                        if Some(xi) == victim {
                            continue;
                        }
                        let mut inputs = Vec::new();
                        for (f, b) in edited.render_pkg(xi) {
                            let rel = format!("edited/{f}");
                            sb.write(&rel, &b);
                            inputs.push(sb.path(&rel));
                        }
                        let mut a = vec![s("goml"), s("build"), s("--package"), nme.clone(), s("--input")];
                        a.extend(inputs);
                        a.push(s("--interface-path"));
                        a.push(sb.path("stale"));
                        a.push(s("--output"));
                        a.push(sb.path(&format!("stale/{nme}")));
                        let r = ops::goml(sb, &ProcSpec { entropy: 9, readdir: 9, ..Default::default() }, a);
                        if r.exit != Exit::Ok {
                            all_ok = false;
                            break;
                        }
                    }
                    if all_ok && victim.is_some() {
                        let mut a = vec![s("goml"), s("link"), s("--input")];
                        a.extend(order.iter().map(|n| format!("{{ROOT}}/stale/{n}.core")));
                        a.push(s("--output"));
                        a.push(s("{ROOT}/linked/main.go"));
                        opsv.push(OpSpec { entry: "link".into(), args: a });
                        for nme in &order {
                            artifacts.push(format!("stale/{nme}.core"));
                        }
                    }
                }
            }
        }
    }
    let base = sb.snapshot();
    let sources: Vec<String> = case.files.keys().cloned().collect();
    (base, opsv, sources, artifacts)
}

fn panic_key(msg: &str) -> String {
    // location-free, number-free prefix of the panic message
    let m: String = msg.chars().map(|c| if c.is_ascii_digit() { '#' } else { c }).collect();
    m.chars().take(60).collect()
}

#[derive(serde::Serialize, serde::Deserialize)]
struct WireViolation {
    class: String,
    key: Value,
    what: String,
    replay: Value,
}

#[derive(serde::Serialize, serde::Deserialize)]
struct WireResult {
    idx: usize,
    violations: Vec<WireViolation>,
    runs: u64,
    fingerprints: Vec<String>,
    fired: BTreeMap<String, u64>,
    probes: BTreeMap<String, u64>,
    sample: Option<Value>,
    digest: String,
}

struct CaseResult {
    violations: Vec<Violation>,
    runs: u64,
    fingerprints: Vec<String>,
    fired: BTreeMap<String, u64>,
    probes: BTreeMap<&'static str, u64>,
    sample: Option<Value>,
    digest: String,
}

/// If the plan's stored-byte fault altered exactly one field of a JSON artifact (and left it
/// well-formed), the first path segment of that field, e.g. "/core_ir".
fn altered_artifact_field(base: &Files, plan: &FaultPlan) -> Option<String> {
    let path = match &plan.store {
        StoreFault::Bytes { path, .. } | StoreFault::Field { path, .. } | StoreFault::FlipAt { path, .. } | StoreFault::FieldChar { path, .. } => path,
        _ => return None,
    };
    if !(path.ends_with(".core") || path.ends_with(".interface")) {
        return None;
    }
    let old = base.get(path)?;
    let tmp = Sandbox::new("c04field").ok()?;
    let mut one = Files::new();
    one.insert(path.clone(), old.clone());
    tmp.materialise(&one);
    apply_store_fault(&tmp, &plan.store);
    let new = tmp.read(path)?;
    let a: Value = serde_json::from_slice(old).ok()?;
    let b: Value = serde_json::from_slice(&new).ok()?;
    let ptr = faults::first_difference(&a, &b, String::new())?;
    let seg = ptr.split('/').find(|x| !x.is_empty())?;
    Some(format!("/{seg}"))
}

fn mk_violation(case: &Case, base: &Files, op: &OpSpec, plan: &FaultPlan, class: &str, detail: &str) -> Violation {
    let field = altered_artifact_field(base, plan);
    let key = match (&field, class) {
        // a well-formed but altered artifact that is let through and then breaks a later stage:
        // identified by which part of the artifact was altered, not by the panic text
        (Some(f), "panic") => json!({"class": class, "entry": op.entry, "artifact_field": f}),
        (_, "panic") => json!({"class": class, "entry": op.entry, "panic": panic_key(detail)}),
        _ => json!({"class": class, "entry": op.entry}),
    };
    Violation {
        property: PROP.into(),
        class: class.to_string(),
        key,
        what: format!("C04: `goml {}` on project {} under faults: {}: {}", op.entry, case.name, class, detail.chars().take(300).collect::<String>()),
        replay: json!({"kind": "c04", "case": case.name, "world": files_json(base), "op": op, "plan": plan, "class": class}),
    }
}

/// Shrink a failing plan: drop faults one by one while the same problem class persists.
fn shrink_plan(sb: &Sandbox, base: &Files, op: &OpSpec, plan: &FaultPlan, class: &str, clean_written: Option<&BTreeMap<String, String>>) -> FaultPlan {
    let still = |p: &FaultPlan| execute_vs(sb, base, op, p, clean_written).problems.iter().any(|(c, _)| c == class);
    let mut cur = plan.clone();
    if cur.store != StoreFault::None {
        let mut t = cur.clone();
        t.store = StoreFault::None;
        if still(&t) {
            cur = t;
        }
    }
    if cur.spec.crash_at.is_some() {
        let mut t = cur.clone();
        t.spec.crash_at = None;
        if still(&t) {
            cur = t;
        }
    }
    if cur.spec.chunk != 0 {
        let mut t = cur.clone();
        t.spec.chunk = 0;
        if still(&t) {
            cur = t;
        }
    }
    let mut i = cur.spec.plan.len();
    while i > 0 {
        i -= 1;
        let mut t = cur.clone();
        t.spec.plan.remove(i);
        if still(&t) {
            cur = t;
        }
    }
    cur
}

fn check_case(sb: &Sandbox, opts: &Opts, idx: usize, case: &Case, per_op: usize, enumerate: bool) -> CaseResult {
    let mut r = CaseResult { violations: Vec::new(), runs: 0, fingerprints: Vec::new(), fired: BTreeMap::new(), probes: BTreeMap::new(), sample: None, digest: String::new() };
    let (base, opsv, sources, artifacts) = prepare(sb, case);
    let pd = sha(serde_json::to_string(&files_json(&case.files)).unwrap().as_bytes());
    for (oi, op) in opsv.iter().enumerate() {
        let entropy = mix(&[opts.seed, idx as u64, oi as u64, purpose("c04-entropy")]);
        let clean = FaultPlan { store: StoreFault::None, spec: ProcSpec { entropy, readdir: entropy, ..Default::default() } };
        let baseline = execute(sb, &base, op, &clean);
        r.runs += 1;
        for (class, detail) in &baseline.problems {
            r.violations.push(mk_violation(case, &base, op, &clean, class, detail));
        }
        let mut plans: Vec<FaultPlan> = Vec::new();
        if enumerate {
            // every single-syscall fault position x every action of the catalogue, plus every crash point
            for call in CALLS {
                let n = baseline.counts.get(call.name()).copied().unwrap_or(0);
                for nth in 0..n {
                    for a in actions_for(call) {
                        plans.push(FaultPlan { store: StoreFault::None, spec: ProcSpec { entropy, readdir: entropy, plan: vec![FaultRule { call, nth, action: a }], ..Default::default() } });
                    }
                }
            }
            for k in 0..baseline.syscalls {
                plans.push(FaultPlan { store: StoreFault::None, spec: ProcSpec { entropy, readdir: entropy, crash_at: Some(k), ..Default::default() } });
            }
        }
        let mut p = Prng::derive(opts.seed, (idx * 1000 + oi) as u64, "c04-plan");
        for _ in 0..per_op {
            plans.push(random_plan(&mut p, &baseline, &sources, &artifacts, entropy));
        }
        // half-written and bit-rotted files at exact byte positions: every file this kind of
        // operation reads (sources for run/check/build, artifacts for check/build/link)
        let pool: Vec<&String> = match op.entry.as_str() {
            "run" => sources.iter().collect(),
            "link" => artifacts.iter().filter(|a| a.ends_with(".core")).collect(),
            _ => sources.iter().chain(artifacts.iter().filter(|a| a.ends_with(".interface"))).collect(),
        };
        if !pool.is_empty() {
            let clean_spec = ProcSpec { entropy, readdir: entropy, ..Default::default() };
            if op.entry == "run" {
                // thorough: every truncation point of every source (budgeted); quick: of every
                // small source file (a half-saved file is the most common stored-byte fault)
                let mut budget = if enumerate { 6000usize } else if case.name.starts_with("gen/") { 0 } else { 1500 };
                for path in &pool {
                    let len = base.get(*path).map(|b| b.len()).unwrap_or(0);
                    if !enumerate && len > 1500 {
                        continue;
                    }
                    for at in 0..len {
                        if budget == 0 {
                            break;
                        }
                        budget -= 1;
                        plans.push(FaultPlan { store: StoreFault::TruncateAt { path: (*path).clone(), at }, spec: clean_spec.clone() });
                    }
                }
            }
            // a file name that is not valid UTF-8, in the root and in a package directory
            if op.entry == "run" {
                plans.push(FaultPlan { store: StoreFault::NonUtf8Name { dir: String::new() }, spec: clean_spec.clone() });
                if let Some(sdir) = sources.iter().filter(|s| s.contains('/')).next() {
                    plans.push(FaultPlan { store: StoreFault::NonUtf8Name { dir: sdir[..sdir.rfind('/').unwrap_or(0)].to_string() }, spec: clean_spec.clone() });
                }
            }
            // symbolic links among the sources (dangling / loop / to a directory)
            if op.entry != "link" {
                for kind in 0..3u8 {
                    let dir = match sources.iter().filter(|s| s.contains('/')).next() {
                        Some(s) if kind % 2 == 1 => format!("{}/", &s[..s.rfind('/').unwrap_or(0)]),
                        _ => String::new(),
                    };
                    let name = if kind == 0 { format!("{dir}.#zz_lock.gom") } else { format!("{dir}zz_link{kind}.gom") };
                    plans.push(FaultPlan { store: StoreFault::Symlink { path: name, kind }, spec: clean_spec.clone() });
                }
            }
            // header fields of the artifacts this operation really opens: every character
            // position of a string field (at most two levels deep, at most 80 characters) replaced
            // by a multi-byte character. thorough: every such field; quick: one field, for one
            // operation in four
            if op.entry != "run" && (enumerate || (idx + oi) % 4 == 0) {
                let arts: Vec<&String> = artifacts.iter().filter(|a| baseline.opened.contains(*a)).collect();
                if !arts.is_empty() {
                    let chosen: Vec<&String> = if enumerate { arts.clone() } else { vec![*p.pick(&arts)] };
                    for path in chosen {
                        let Some(doc) = base.get(path).and_then(|b| serde_json::from_slice::<Value>(b).ok()) else { continue };
                        let mut fields: Vec<(String, usize)> = Vec::new();
                        for ptr in faults::all_pointers(&doc) {
                            if ptr.matches('/').count() > 2 {
                                continue;
                            }
                            if let Some(Value::String(st)) = doc.pointer(&ptr) {
                                let n = st.chars().count();
                                if n > 0 && n <= 80 {
                                    fields.push((ptr, n));
                                }
                            }
                        }
                        if fields.is_empty() {
                            continue;
                        }
                        let picked: Vec<(String, usize)> = if enumerate { fields } else { vec![p.pick(&fields).clone()] };
                        let mut budget = 600usize;
                        for (ptr, n) in picked {
                            let ch = ['\u{e9}', '\u{4e2d}', '\u{1f600}'][p.usize(3)];
                            for at in 0..n {
                                if budget == 0 {
                                    break;
                                }
                                budget -= 1;
                                plans.push(FaultPlan { store: StoreFault::FieldChar { path: path.clone(), pointer: ptr.clone(), at, ch }, spec: clean_spec.clone() });
                            }
                        }
                    }
                }
            }
            // deep nesting spliced into a genuine artifact the operation opens
            if op.entry != "run" && (enumerate || (idx + oi) % 3 == 1) {
                let arts: Vec<&String> = artifacts.iter().filter(|a| baseline.opened.contains(*a)).collect();
                if !arts.is_empty() {
                    let reps = if enumerate { 6 } else { 2 };
                    for _ in 0..reps {
                        let path = (*p.pick(&arts)).clone();
                        let pick = p.next_u64();
                        // (only beyond the reader's limit: a deep *valid* program is not "boundedly
                        // nested input" for the later stages)
                        plans.push(FaultPlan { store: StoreFault::DeepPump { path: path.clone(), pick, depth: 12_000 }, spec: clean_spec.clone() });
                        for depth in [150usize, 3_000, 12_000] {
                            for extra_field in [false, true] {
                                plans.push(FaultPlan { store: StoreFault::DeepSplice { path: path.clone(), pick, depth, extra_field }, spec: clean_spec.clone() });
                            }
                        }
                    }
                }
            }
            // the system refuses a thread the operation asks for (the fault-free run tells how many)
            let nthreads = baseline.counts.get("thread").copied().unwrap_or(0);
            for nth in 0..nthreads.min(if enumerate { 8 } else { 2 }) {
                plans.push(FaultPlan { store: StoreFault::None, spec: ProcSpec { thread_fail: Some(nth), ..clean_spec.clone() } });
            }
            // an artifact the operation opens (its dependencies' or, when it builds over an
            // existing store, its own earlier output) cut short in its last bytes: a write that
            // was interrupted just before the end
            if op.entry != "run" && (enumerate || (idx + oi) % 3 == 0 || op.args.iter().any(|a| a.contains("/out/") && !a.ends_with(".core") && !a.ends_with("/out"))) {
                let arts: Vec<&String> = artifacts.iter().filter(|a| baseline.opened.contains(*a)).collect();
                let chosen: Vec<&String> = if enumerate || arts.len() <= 2 { arts.clone() } else { vec![*p.pick(&arts), *p.pick(&arts)] };
                for path in chosen {
                    let len = base.get(path).map(|b| b.len()).unwrap_or(0);
                    let tail: Vec<usize> = if enumerate { (1..=128).collect() } else { vec![1, 2, 3, 5, 9, 17, 33, 50, 65, 66, 67, 90] };
                    for k in tail {
                        if k < len {
                            plans.push(FaultPlan { store: StoreFault::TruncateAt { path: path.clone(), at: len - k }, spec: clean_spec.clone() });
                        }
                    }
                }
            }
            let n_exact = if enumerate { 200 } else { 10 };
            for _ in 0..n_exact {
                let path = (*p.pick(&pool)).clone();
                let len = base.get(&path).map(|b| b.len()).unwrap_or(0);
                if len == 0 {
                    continue;
                }
                let store = if p.chance(1, 2) {
                    StoreFault::TruncateAt { path, at: p.usize(len) }
                } else {
                    StoreFault::FlipAt { path, at: p.usize(len), bit: p.below(8) as u8 }
                };
                plans.push(FaultPlan { store, spec: clean_spec.clone() });
            }
        }
        let mut hangs_of_this_op = 0u32;
        for (pi, plan) in plans.iter().enumerate() {
            // a compiler that hangs costs the watchdog's whole budget per run: two hangs of one
            // operation are reported, the rest of its plans is not needed; and a worker that has
            // met many hangs stops exploring (the finding is made, the check must still end)
            if hangs_of_this_op >= 2 || HANGS_SEEN.load(std::sync::atomic::Ordering::Relaxed) >= 6 {
                break;
            }
            let obs = execute_vs(sb, &base, op, plan, baseline.written.as_ref());
            if obs.exit == Exit::Hung {
                hangs_of_this_op += 1;
                HANGS_SEEN.fetch_add(1, std::sync::atomic::Ordering::Relaxed);
            }
            r.runs += 1;
            r.digest = sha(format!("{}{}{:?}{}", r.digest, obs.exit.class(), obs.counts, obs.syscalls).as_bytes());
            for f in &obs.fired {
                *r.fired.entry(f.split(':').next().unwrap_or(f).to_string() + ":" + f.split(':').nth(1).unwrap_or("")).or_insert(0) += 1;
            }
            if plan.store != StoreFault::None {
                let kind = match &plan.store {
                    StoreFault::Bytes { .. } => "stored:byte-corruption",
                    StoreFault::Field { .. } => "stored:single-field-corruption",
                    StoreFault::Foreign { .. } => "stored:foreign-version",
                    StoreFault::Swap { .. } => "stored:swap",
                    StoreFault::Remove { .. } => "stored:file-vanished",
                    StoreFault::DirInsteadOfFile { .. } => "stored:directory-instead-of-file",
                    StoreFault::Replace { .. } => "stored:file-replaced",
                    StoreFault::TruncateAt { .. } => "stored:truncated-at-exact-offset",
                    StoreFault::FlipAt { .. } => "stored:bit-flipped-at-exact-offset",
                    StoreFault::Symlink { .. } => "stored:symlink-dangling-loop-or-dir",
                    StoreFault::FieldChar { .. } => "stored:header-field-character-replaced",
                    StoreFault::DeepSplice { .. } => "stored:deep-nesting-spliced-into-artifact",
                    StoreFault::DeepPump { .. } => "stored:recursive-node-pumped-beyond-reader-limit",
                    StoreFault::NonUtf8Name { .. } => "stored:file-name-not-utf8",
                    StoreFault::None => "",
                };
                *r.fired.entry(kind.to_string()).or_insert(0) += 1;
            }
            if plan.spec.chunk > 0 {
                *r.fired.entry("read:chunked".to_string()).or_insert(0) += 1;
            }
            if obs.written.is_some() && plan.store == StoreFault::None && !obs.fired.is_empty() {
                *r.probes.entry("success_under_transient_faults_output_compared_with_fault_free").or_insert(0) += 1;
            }
            if obs.reran_on_leftovers {
                r.runs += 1;
                *r.probes.entry("next_invocation_run_on_leftovers_of_an_interrupted_one").or_insert(0) += 1;
            }
            match &obs.exit {
                Exit::Ok => *r.probes.entry("faulty_op_still_succeeded").or_insert(0) += 1,
                Exit::Err(_) => *r.probes.entry("faulty_op_failed_with_message").or_insert(0) += 1,
                Exit::Killed => *r.probes.entry("op_killed_by_crash").or_insert(0) += 1,
                _ => {}
            }
            r.fingerprints.push(format!("{}:{}:{}", &pd[..10], oi, sha(format!("{:?}", plan).as_bytes())[..12].to_string()));
            if let Some((class, detail)) = obs.problems.first() {
                let small = shrink_plan(sb, &base, op, plan, class, baseline.written.as_ref());
                r.violations.push(mk_violation(case, &base, op, &small, class, detail));
                if r.violations.len() > 6 {
                    return r;
                }
            }
            // liveness: after the faults stop the same operation on the repaired store behaves
            // as it did before (no poisoned process-global state)
            if pi % 16 == 0 {
                let again = execute(sb, &base, op, &clean);
                r.runs += 1;
                if again.exit.class() != baseline.exit.class() {
                    r.violations.push(mk_violation(case, &base, op, &clean, "no-recovery-after-faults", &format!("fault-free operation gives {} before the faulty run and {} after it", baseline.exit.class(), again.exit.class())));
                } else {
                    *r.probes.entry("recovery_checked_after_faults").or_insert(0) += 1;
                }
            }
            if r.sample.is_none() && !plan.spec.plan.is_empty() && matches!(obs.exit, Exit::Err(_)) {
                r.sample = Some(json!({"project": case.name, "operation": op.args, "plan": plan, "outcome": obs.exit}));
            }
        }
    }
    r
}

pub fn run(opts: &Opts) -> i32 {
    let all = cases(opts);
    let enumerate = opts.tier == Tier::Thorough;
    let per_op = if opts.tier == Tier::Quick { 8 } else { 12 };
    let mut ev = Evidence::new(
        PROP,
        "fault_enumeration",
        "worlds = repository corpus + generated multi-package projects (a fifth ill-typed, a fifth with an illegal configuration out of 44 kinds or an odd layout: one name defined twice in one or two files), each with a genuine artifact set built beforehand; operations = `run`, and `check`/`build` of every package, and `link`; quick: per operation a fault-free run plus N seeded fault plans of 1-3 faults (errno on the n-th open/read/write/opendir/readdir/stat/mkdir, short reads/writes, chunked I/O, ENOSPC mid-file, stat lies, crash at syscall k, and stored-byte faults: bit flip, truncation, garbage, vanished file, directory instead of file, replaced or swapped file, single-field JSON corruption, foreign-version artifact; exact-offset truncation / bit flip; symbolic links among the sources; every character position of a header field of an opened artifact replaced by a multi-byte character; deep nesting wrapped around a node, appended as an extra field, or pumped from a recursive node of a genuine artifact beyond the reader's limit); thorough: additionally every single-syscall fault position x every action of the catalogue and every crash point of every operation (exhaustive for that sub-space). oracle: no panic / abort / hang, a failure carries a message, a rejection carries >= 1 error diagnostic with stage and message, positions lie inside a source text, a success is never reported after a failed write to the store, and under transient faults alone a success wrote exactly what the fault-free run writes; distinct = distinct (project, operation, fault plan); all are non-trivial (at least one injected fault) except the fault-free baselines",
    );
    ev.components_real = harness::REAL_COMPONENTS.iter().map(|s| s.to_string()).collect();
    ev.components_stub = harness::STUB_COMPONENTS.iter().map(|s| s.to_string()).collect();
    ev.assumptions = vec![
        "scope: the configuration / stored-bytes / failing-I/O part of C04; 'all byte sequences / all programs' as pure input generation is not claimed".into(),
        "a diagnostic's range is accepted if it lies inside the text of *some* source file of the project (diagnostics do not name their file)".into(),
        "allocation failure and stack exhaustion are not injected".into(),
    ];
    ev.exhaustive = Some(false);
    let _ = (per_op, enumerate);
    // Every worker is a separate OS process under an address-space limit, announcing each
    // operation in a marker file before running it: a compiler that aborts, overflows its stack,
    // exhausts memory or never returns kills (or stalls) only that child, and the parent knows
    // which operation under which faults did it.
    let (results, process_faults) = run_children(opts, &all);
    harness::print_run_digest(&results.iter().map(|r| r.digest.clone()).collect::<Vec<_>>());
    let mut violations = Vec::new();
    violations.extend(process_faults);
    for r in results {
        ev.evaluations += r.runs;
        ev.distinct.extend(r.fingerprints);
        for (k, v) in r.fired {
            ev.fault(&k, v);
        }
        for (k, v) in r.probes {
            ev.probe(k, v);
        }
        if let Some(s) = r.sample {
            ev.sample(s);
        }
        violations.extend(r.violations);
    }
    ev.extra.insert("worlds".into(), json!(all.len()));
    ev.extra.insert("single_syscall_fault_positions_enumerated".into(), json!(enumerate));
    ev.extra.insert("simulated_time".into(), json!("not applicable: no clock is read by the compiler; logical clock = intercepted syscall sequence"));
    let nviol = violations.len();
    let outcome = harness::conclude(PROP, violations, opts, &harness::verify_in_fresh_process);
    ev.write(opts, outcome.unlisted as usize, nviol);
    println!(
        "C04 {}: {} worlds, {} simulated operations, {} distinct fault plans, {} violations ({} known), {:.1}s",
        opts.tier.name(),
        all.len(),
        ev.evaluations,
        ev.distinct.len(),
        outcome.unlisted,
        outcome.known,
        ev.start.elapsed().as_secs_f64()
    );
    outcome.exit_code
}

pub fn replay(file: &Value) -> bool {
    let r = &file["replay"];
    let base = files_from_json(&r["world"]);
    let op: OpSpec = match serde_json::from_value(r["op"].clone()) {
        Ok(o) => o,
        Err(_) => return false,
    };
    let plan: FaultPlan = match serde_json::from_value(r["plan"].clone()) {
        Ok(o) => o,
        Err(e) => {
            println!("cannot decode plan: {e}");
            return false;
        }
    };
    let sb = Sandbox::new("c04replay").expect("sandbox");
    let class = r["class"].as_str().unwrap_or("");
    if class == "no-recovery-after-faults" {
        return false;
    }
    if r["kind"] == "c04-process" {
        // run the operation in a grandchild and see whether it survives
        let tmp = format!("/dev/shm/gv-c04-exec-{}.json", std::process::id());
        std::fs::write(&tmp, serde_json::to_vec(file).unwrap()).unwrap();
        let mut child = std::process::Command::new(std::env::current_exe().unwrap()).args(["c04-exec", &tmp]).stdout(std::process::Stdio::null()).stderr(std::process::Stdio::null()).spawn().unwrap();
        let start = std::time::Instant::now();
        let verdict = loop {
            match child.try_wait() {
                Ok(Some(st)) => break !st.success(),
                Ok(None) => {
                    if start.elapsed() > HANG_LIMIT {
                        let _ = child.kill();
                        let _ = child.wait();
                        break true;
                    }
                    std::thread::sleep(std::time::Duration::from_millis(50));
                }
                Err(_) => break false,
            }
        };
        let _ = std::fs::remove_file(&tmp);
        println!("replayed: the operation {} in a fresh process", if verdict { "did not survive" } else { "survived" });
        return verdict;
    }
    let clean = FaultPlan { store: StoreFault::None, spec: ProcSpec { entropy: plan.spec.entropy, readdir: plan.spec.entropy, ..Default::default() } };
    let baseline = execute(&sb, &base, &op, &clean);
    let obs = execute_vs(&sb, &base, &op, &plan, baseline.written.as_ref());
    for (c, d) in &obs.problems {
        println!("replayed: {c}: {}", d.chars().take(300).collect::<String>());
    }
    obs.problems.iter().any(|(c, _)| c == class)
}


const HANG_LIMIT: std::time::Duration = std::time::Duration::from_secs(600);
const CHILD_MEMORY_LIMIT: u64 = 3 << 30;

fn out_base(k: usize) -> String {
    format!("/dev/shm/gv-c04-{:07}-{:02}", std::process::id() % 10_000_000, k)
}

/// Child mode: handle the cases i with i % n == k and i > resume_after, one after another.
pub fn child(opts: &Opts, k: usize, n: usize, resume_after: i64, base: &str) -> i32 {
    unsafe {
        let lim = libc::rlimit { rlim_cur: CHILD_MEMORY_LIMIT, rlim_max: CHILD_MEMORY_LIMIT };
        libc::setrlimit(libc::RLIMIT_AS, &lim);
    }
    let all = cases(opts);
    let enumerate = opts.tier == Tier::Thorough;
    let per_op = if opts.tier == Tier::Quick { 8 } else { 12 };
    let sb = match Sandbox::new(&format!("c04c{k}")) {
        Ok(s) => s,
        Err(e) => {
            eprintln!("HARNESS ERROR: {e}");
            return 2;
        }
    };
    use std::io::Write;
    let mut out = match std::fs::OpenOptions::new().create(true).append(true).open(format!("{base}.result")) {
        Ok(f) => f,
        Err(e) => {
            eprintln!("HARNESS ERROR: cannot open result file: {e}");
            return 2;
        }
    };
    for (i, case) in all.iter().enumerate() {
        if i % n != k || (i as i64) <= resume_after {
            continue;
        }
        if HANGS_SEEN.load(std::sync::atomic::Ordering::Relaxed) >= 6 {
            break;
        }
        let _ = std::fs::write(format!("{base}.world"), serde_json::to_vec(&json!({"idx": i, "case": case.name, "files": files_json(&case.files)})).unwrap());
        MARKER.with(|m| *m.borrow_mut() = Some((format!("{base}.marker"), case.name.clone())));
        let _ = std::fs::write(format!("{base}.marker"), serde_json::to_vec(&json!({"case": case.name, "op": null, "plan": null})).unwrap());
        let r = check_case(&sb, opts, i, case, per_op, enumerate);
        let wire = WireResult {
            idx: i,
            violations: r.violations.into_iter().map(|v| WireViolation { class: v.class, key: v.key, what: v.what, replay: v.replay }).collect(),
            runs: r.runs,
            fingerprints: r.fingerprints,
            fired: r.fired,
            probes: r.probes.into_iter().map(|(k, v)| (k.to_string(), v)).collect(),
            sample: r.sample,
            digest: r.digest,
        };
        let _ = writeln!(out, "{}", serde_json::to_string(&wire).unwrap());
        let _ = out.flush();
    }
    0
}

fn spawn_child(opts: &Opts, k: usize, n: usize, resume_after: i64, base: &str) -> std::io::Result<std::process::Child> {
    std::process::Command::new(std::env::current_exe()?)
        .args(["c04-child", &k.to_string(), &n.to_string(), &resume_after.to_string(), base])
        .env("VERIF_SEED", opts.seed.to_string())
        .env("VERIF_TIER", opts.tier.name())
        .env("VERIF_SCALE", opts.scale.to_string())
        .env("VERIF_WORKERS", "1")
        .env("VERIF_DRY", "1")
        .stdout(std::process::Stdio::null())
        .stderr(std::process::Stdio::null())
        .spawn()
}

fn run_children(opts: &Opts, all: &[Case]) -> (Vec<CaseResult>, Vec<Violation>) {
    let n = opts.workers.max(1).min(all.len().max(1));
    let mut kids: Vec<Option<std::process::Child>> = Vec::new();
    let mut process_faults: Vec<Violation> = Vec::new();
    for k in 0..n {
        let base = out_base(k);
        for ext in ["result", "marker", "world"] {
            let _ = std::fs::remove_file(format!("{base}.{ext}"));
        }
        match spawn_child(opts, k, n, -1, &base) {
            Ok(c) => kids.push(Some(c)),
            Err(e) => {
                eprintln!("HARNESS ERROR: cannot spawn C04 worker: {e}");
                std::process::exit(2);
            }
        }
    }
    let mut restarts = 0usize;
    loop {
        let mut alive = 0;
        for k in 0..n {
            let base = out_base(k);
            let Some(child) = kids[k].as_mut() else { continue };
            let status = child.try_wait().ok().flatten();
            let mut died: Option<String> = None;
            match status {
                Some(st) if st.success() => {
                    kids[k] = None;
                    continue;
                }
                Some(st) => {
                    use std::os::unix::process::ExitStatusExt;
                    died = Some(match st.signal() {
                        Some(11) => "crash: SIGSEGV (stack overflow or invalid memory access)".to_string(),
                        Some(6) => "abort: SIGABRT (allocation failure, stack overflow guard or explicit abort)".to_string(),
                        Some(sig) => format!("killed by signal {sig}"),
                        None => format!("exit status {:?}", st.code()),
                    });
                }
                None => {
                    alive += 1;
                    // hang detection: the marker has not moved for a long time
                    if let Ok(md) = std::fs::metadata(format!("{base}.marker")) {
                        if let Ok(age) = md.modified().map(|t| t.elapsed().unwrap_or_default()) {
                            if age > HANG_LIMIT {
                                let _ = child.kill();
                                let _ = child.wait();
                                died = Some(format!("hang: no progress for {} s", HANG_LIMIT.as_secs()));
                                alive -= 1;
                            }
                        }
                    }
                }
            }
            if let Some(how) = died {
                let marker: Value = std::fs::read(format!("{base}.marker")).ok().and_then(|b| serde_json::from_slice(&b).ok()).unwrap_or(Value::Null);
                let world: Value = std::fs::read(format!("{base}.world")).ok().and_then(|b| serde_json::from_slice(&b).ok()).unwrap_or(Value::Null);
                let idx = world["idx"].as_i64().unwrap_or(-1);
                let class = if how.starts_with("hang") { "hang" } else { "abort" };
                let entry = marker["op"]["entry"].as_str().unwrap_or("?").to_string();
                if marker["op"].is_null() {
                    // died while preparing the world (fault-free build of the artifact set)
                    process_faults.push(Violation {
                        property: PROP.into(),
                        class: class.to_string(),
                        key: json!({"class": class, "entry": "prepare"}),
                        what: format!("C04: the compiler process died ({how}) while building project {} without any fault injected", world["case"]),
                        replay: json!({"kind": "c04-process", "world_sources": world["files"], "op": null, "plan": null, "class": class, "how": how}),
                    });
                } else {
                    process_faults.push(Violation {
                        property: PROP.into(),
                        class: class.to_string(),
                        key: json!({"class": class, "entry": entry}),
                        what: format!("C04: `goml {}` on project {}: the process did not survive ({how})", entry, world["case"]),
                        replay: json!({"kind": "c04-process", "world_sources": world["files"], "op": marker["op"], "plan": marker["plan"], "class": class, "how": how, "case_index": idx}),
                    });
                }
                restarts += 1;
                if restarts > 24 {
                    // the compiler keeps dying: that is the finding; stop exploring this share
                    kids[k] = None;
                    continue;
                }
                match spawn_child(opts, k, n, idx, &base) {
                    Ok(c) => {
                        kids[k] = Some(c);
                        alive += 1;
                    }
                    Err(_) => kids[k] = None,
                }
            }
        }
        if alive == 0 && kids.iter().all(|k| k.is_none()) {
            break;
        }
        std::thread::sleep(std::time::Duration::from_millis(40));
    }
    // collect
    let mut by_idx: BTreeMap<usize, CaseResult> = BTreeMap::new();
    for k in 0..n {
        let base = out_base(k);
        if let Ok(text) = std::fs::read_to_string(format!("{base}.result")) {
            for line in text.lines() {
                if let Ok(w) = serde_json::from_str::<WireResult>(line) {
                    by_idx.insert(
                        w.idx,
                        CaseResult {
                            violations: w.violations.into_iter().map(|v| Violation { property: PROP.into(), class: v.class, key: v.key, what: v.what, replay: v.replay }).collect(),
                            runs: w.runs,
                            fingerprints: w.fingerprints,
                            fired: w.fired,
                            probes: w.probes.into_iter().map(|(k, v)| (leak(k), v)).collect(),
                            sample: w.sample,
                            digest: w.digest,
                        },
                    );
                }
            }
        }
        for ext in ["result", "marker", "world"] {
            let _ = std::fs::remove_file(format!("{base}.{ext}"));
        }
    }
    let _ = all;
    (by_idx.into_values().collect(), process_faults)
}

fn leak(s: String) -> &'static str {
    Box::leak(s.into_boxed_str())
}

/// Re-run one (world, op, plan) in this process — used by `sim c04-exec` (a grandchild under an
/// address-space limit) when replaying an abort / hang.
pub fn exec_one(file: &Value) -> i32 {
    unsafe {
        let lim = libc::rlimit { rlim_cur: CHILD_MEMORY_LIMIT, rlim_max: CHILD_MEMORY_LIMIT };
        libc::setrlimit(libc::RLIMIT_AS, &lim);
    }
    let r = &file["replay"];
    let sources = files_from_json(&r["world_sources"]);
    let sb = Sandbox::new("c04exec").expect("sandbox");
    let case = Case { name: "replay".into(), files: sources, proj: None };
    let (base, _, _, _) = prepare(&sb, &case);
    let op: OpSpec = match serde_json::from_value(r["op"].clone()) {
        Ok(o) => o,
        Err(_) => return 0,
    };
    let plan: FaultPlan = match serde_json::from_value(r["plan"].clone()) {
        Ok(o) => o,
        Err(_) => return 0,
    };
    let obs = execute(&sb, &base, &op, &plan);
    println!("survived: {:?}", obs.exit.class());
    0
}
