//! C14 — separate compilation is equivalent to whole-program compilation.
//!
//! A simulated build farm: the whole-program side is one `run`; the separate side is a seeded
//! schedule of `check` / `build` / `link` CLI processes over an artifact store (random linear
//! extension of the dependency DAG, redundant checks and rebuilds, shuffled list arguments,
//! artifacts split over several --interface-path directories). Every artifact really travels
//! through files and JSON.

use crate::genp::project::{GenCfg, generate};
use crate::gort::co::{Stop, Strategy};
use crate::gort::{self, goi, refi};
use crate::harness::{self, Evidence, Opts, Tier, Violation};
use crate::ops::{self, Layout, s};
use crate::prng::{Prng, mix, purpose};
use crate::props::c09;
use crate::props::c13::{files_from_json, files_json};
use crate::world::{Exit, Files, ProcSpec, Sandbox, run_process, sha};
use serde_json::{Value, json};
use std::collections::BTreeMap;
use std::sync::Arc;

pub const PROP: &str = "C14";

pub struct Case {
    pub name: String,
    pub files: Files,
    pub predicted: Option<String>,
}

#[derive(Clone, Debug, serde::Serialize, serde::Deserialize)]
pub struct SepSchedule {
    pub seed: u64,
}

/// One step of a separate build, as executed (for samples / replay display).
#[derive(Clone, Debug, serde::Serialize)]
pub struct Step {
    pub op: String,
    pub pkg: String,
    pub dir: String,
    pub result: String,
}

pub struct SepResult {
    pub ok: bool,
    pub failure: Option<(String, String)>,
    pub steps: Vec<Step>,
    /// package -> interface bytes written by build / by check
    pub iface_build: BTreeMap<String, Vec<u8>>,
    pub iface_check: BTreeMap<String, Vec<u8>>,
    pub cores: BTreeMap<String, Vec<u8>>,
    pub main_go: Option<Vec<u8>>,
    pub core_paths: Vec<String>,
    pub procs: u64,
}

/// Execute one seeded separate-build schedule.
pub fn separate(sb: &Sandbox, layout: &Layout, sched: &SepSchedule) -> Option<SepResult> {
    let mut p = Prng::new(sched.seed);
    let order = layout.topo(&mut p)?;
    let ndirs = 1 + p.usize(2);
    let dirs: Vec<String> = (0..ndirs).map(|i| format!("art{i}")).collect();
    let mut r = SepResult {
        ok: true,
        failure: None,
        steps: Vec::new(),
        iface_build: BTreeMap::new(),
        iface_check: BTreeMap::new(),
        cores: BTreeMap::new(),
        main_go: None,
        core_paths: Vec::new(),
        procs: 0,
    };
    let mut where_built: BTreeMap<String, String> = BTreeMap::new();
    'outer: for name in &order {
        let pk = &layout.pkgs[name];
        let mut ops_for_pkg = Vec::new();
        if p.chance(1, 2) {
            ops_for_pkg.push("check");
        }
        ops_for_pkg.push("build");
        if p.chance(1, 4) {
            ops_for_pkg.push("check");
        }
        if p.chance(1, 5) {
            ops_for_pkg.push("build");
        }
        let dir = dirs[p.usize(dirs.len())].clone();
        for op in ops_for_pkg {
            let spec = ProcSpec { entropy: p.next_u64(), readdir: p.next_u64(), ..Default::default() };
            let out_dir = if op == "check" { "chk".to_string() } else { dir.clone() };
            let args = ops::pkg_args(sb, op, pk, &dirs, &out_dir, &mut p);
            let res = ops::goml(sb, &spec, args);
            r.procs += 1;
            let result = match &res.exit {
                Exit::Ok => "ok".to_string(),
                Exit::Err(m) => format!("err: {}", sb.normalise(m).chars().take(200).collect::<String>()),
                Exit::Panicked(m) => format!("PANIC: {}", sb.normalise(m)),
                o => o.class().to_string(),
            };
            r.steps.push(Step { op: op.to_string(), pkg: name.clone(), dir: out_dir.clone(), result: result.clone() });
            if res.exit != Exit::Ok {
                if op == "build" {
                    r.ok = false;
                    r.failure = Some((format!("build {name}"), result));
                    break 'outer;
                } else {
                    // a failing check of a package whose build will fail too; the build decides
                    continue;
                }
            }
            if op == "check" {
                if let Some(b) = sb.read(&format!("chk/{name}.interface")) {
                    r.iface_check.insert(name.clone(), b);
                }
            } else {
                where_built.insert(name.clone(), dir.clone());
                if let Some(b) = sb.read(&format!("{dir}/{name}.interface")) {
                    r.iface_build.insert(name.clone(), b);
                }
                if let Some(b) = sb.read(&format!("{dir}/{name}.core")) {
                    r.cores.insert(name.clone(), b);
                }
            }
        }
    }
    if r.ok {
        let cores: Vec<String> = order.iter().map(|n| format!("{}/{}.core", where_built[n], n)).collect();
        r.core_paths = cores.clone();
        let spec = ProcSpec { entropy: p.next_u64(), readdir: p.next_u64(), ..Default::default() };
        let res = ops::goml(sb, &spec, ops::link_args(sb, &cores, "linked/main.go", &mut p));
        r.procs += 1;
        let result = match &res.exit {
            Exit::Ok => "ok".to_string(),
            Exit::Err(m) => format!("err: {}", sb.normalise(m).chars().take(200).collect::<String>()),
            Exit::Panicked(m) => format!("PANIC: {}", sb.normalise(m)),
            o => o.class().to_string(),
        };
        r.steps.push(Step { op: "link".into(), pkg: order.join(","), dir: "linked".into(), result: result.clone() });
        if res.exit == Exit::Ok {
            r.main_go = sb.read("linked/main.go");
        } else {
            r.ok = false;
            r.failure = Some(("link".into(), result));
        }
    }
    Some(r)
}


/// A parallel build farm (`make -j`): packages whose dependencies are built are built
/// *concurrently* into one artifact directory, as simulated processes that park at every sandbox
/// call (chunked I/O, so a file is read and written in many steps) while a seeded scheduler
/// decides who performs the next one. Returns (all ok, interfaces, cores, main.go, processes,
/// scheduling decisions, executed steps).
pub fn separate_parallel(sb: &Sandbox, layout: &Layout, seed: u64) -> Option<(bool, BTreeMap<String, Vec<u8>>, BTreeMap<String, Vec<u8>>, Option<Vec<u8>>, u64, usize, Vec<Step>)> {
    let mut p = Prng::new(seed);
    let mut done: Vec<String> = Vec::new();
    let mut remaining: std::collections::BTreeSet<String> = layout.pkgs.keys().cloned().collect();
    let dirs = vec!["par".to_string()];
    let (mut procs, mut switches) = (0u64, 0usize);
    let mut steps = Vec::new();
    let mut concurrent_batches = 0;
    let chunk = [16usize, 64, 256, 1024, 4096][p.usize(5)];
    while !remaining.is_empty() {
        let mut ready: Vec<String> = remaining.iter().filter(|n| layout.pkgs[*n].imports.iter().all(|d| d == "Builtin" || d == *n || done.contains(d))).cloned().collect();
        if ready.is_empty() {
            return None;
        }
        p.shuffle(&mut ready);
        ready.truncate(1 + p.usize(3));
        let mut specs = Vec::new();
        let mut bodies: Vec<Box<dyn FnOnce() -> anyhow::Result<crate::cli::CliOut> + Send>> = Vec::new();
        let mut labels: Vec<(String, &'static str)> = Vec::new();
        for name in &ready {
            let args = ops::pkg_args(sb, "build", &layout.pkgs[name], &dirs, "par", &mut p);
            specs.push(ProcSpec { entropy: p.next_u64(), readdir: p.next_u64(), chunk, ..Default::default() });
            bodies.push(Box::new(move || crate::cli::entry(&args)));
            labels.push((name.clone(), "build"));
        }
        // a `check` of a package running next to its `build` (an editor checking on save, a
        // pipelined make rule for the interface): both write the same <P>.interface
        for name in &ready {
            if p.chance(1, 2) {
                let args = ops::pkg_args(sb, "check", &layout.pkgs[name], &dirs, "par", &mut p);
                specs.push(ProcSpec { entropy: p.next_u64(), readdir: p.next_u64(), chunk, ..Default::default() });
                bodies.push(Box::new(move || crate::cli::entry(&args)));
                labels.push((name.clone(), "check"));
            }
        }
        if labels.len() >= 2 {
            concurrent_batches += 1;
        }
        let mut sched = Prng::new(p.next_u64());
        let (results, schedule) = crate::world::run_concurrent(&sb.root, specs, bodies, &mut sched, None);
        procs += results.len() as u64;
        switches += schedule.len();
        let mut failed = false;
        for ((name, what), res) in labels.iter().zip(results.iter()) {
            let result = match &res.exit {
                Exit::Ok => "ok".to_string(),
                Exit::Err(m) => format!("err: {}", sb.normalise(m).chars().take(200).collect::<String>()),
                Exit::Panicked(m) => format!("PANIC: {}", sb.normalise(m)),
                o => o.class().to_string(),
            };
            steps.push(Step { op: format!("{what} (one of {} concurrent)", labels.len()), pkg: name.clone(), dir: "par".into(), result });
            failed |= res.exit != Exit::Ok;
        }
        if failed {
            return Some((false, BTreeMap::new(), BTreeMap::new(), None, procs, switches, steps));
        }
        for name in ready {
            remaining.remove(&name);
            done.push(name);
        }
    }
    if concurrent_batches == 0 {
        return None;
    }
    let mut ifaces = BTreeMap::new();
    let mut cores = BTreeMap::new();
    for n in &done {
        if let Some(b) = sb.read(&format!("par/{n}.interface")) {
            ifaces.insert(n.clone(), b);
        }
        if let Some(b) = sb.read(&format!("par/{n}.core")) {
            cores.insert(n.clone(), b);
        }
    }
    let core_paths: Vec<String> = done.iter().map(|n| format!("par/{n}.core")).collect();
    let spec = ProcSpec { entropy: p.next_u64(), readdir: p.next_u64(), ..Default::default() };
    let res = ops::goml(sb, &spec, ops::link_args(sb, &core_paths, "par/main.go", &mut p));
    procs += 1;
    let ok = res.exit == Exit::Ok;
    steps.push(Step { op: "link".into(), pkg: done.join(","), dir: "par".into(), result: if ok { "ok".into() } else { format!("{:?}", res.exit).chars().take(200).collect() } });
    let main_go = if ok { sb.read("par/main.go") } else { None };
    Some((ok, ifaces, cores, main_go, procs, switches, steps))
}

/// Link the cores found in the sandbox through the library API (same code `goml link` runs) to
/// obtain the Go AST for execution on the simulated runtime.
pub fn link_ast(sb: &Sandbox, core_paths: &[String], entropy: u64) -> Result<(compiler::go::goast::File, String), String> {
    let paths: Vec<String> = core_paths.iter().map(|c| sb.path(c)).collect();
    let spec = ProcSpec { entropy, readdir: entropy, ..Default::default() };
    let res = run_process(&sb.root, &spec, None, move || {
        let mut units = Vec::new();
        for p in &paths {
            let u = compiler::pipeline::separate::read_core(std::path::Path::new(p))
                .map_err(|e| anyhow::anyhow!("read_core: {:?}", e))?;
            units.push(u);
        }
        let linked = compiler::pipeline::separate::link_cores(units).map_err(|e| anyhow::anyhow!("link: {:?}", e))?;
        let text = linked.go.to_pretty(&linked.goenv, 120);
        Ok((linked.go, text))
    });
    match res.exit {
        Exit::Ok => Ok(res.value.unwrap()),
        other => Err(format!("{other:?}")),
    }
}

/// A case named `…+symlink:<file>` keeps that source file elsewhere and has a symbolic link in
/// its place (a shared or vendored file): both pipelines must still see it.
fn link_out(sb: &Sandbox, case_name: &str) {
    let Some(rel) = case_name.split("+symlink:").nth(1) else { return };
    let Some(bytes) = sb.read(rel) else { return };
    let target = format!("zz_linked/{}.txt", rel.replace('/', "__"));
    sb.write(&target, &bytes);
    sb.remove(rel);
    let _ = std::os::unix::fs::symlink(sb.path(&target), sb.path(rel));
}

pub fn cases(opts: &Opts) -> Vec<Case> {
    let mut out: Vec<Case> = Vec::new();
    for c in ops::corpus() {
        out.push(Case { name: c.name, files: c.files, predicted: c.expected_out.filter(|o| !o.contains("goroutine 1 [running]") && !o.contains("command-line-arguments")) });
    }
    let ngen = opts.n(1500, 12000);
    for i in 0..ngen {
        let mut p = Prng::derive(opts.seed, i as u64, "c14-project");
        let cfg = GenCfg::swarm(&mut p);
        let mut proj = generate(&mut p, &cfg);
        let mut name = format!("gen/{i}");
        let mut predicted = proj.predict_stdout();
        if i % 6 == 5 {
            let pi = p.usize(proj.pkgs.len());
            proj.pkgs[pi].raw = crate::genp::variants::multi_error_text(&mut p);
            name.push_str("+errors");
            predicted = None;
        }
        let mut files = proj.render();
        if i % 7 == 3 {
            // a second file of package Main whose name differs from the entry file only in
            // letter case (a case-sensitive file system holds both)
            if let Some(m) = files.get("main.gom").cloned() {
                let mut t = String::from_utf8_lossy(&m).to_string();
                t.push_str("\nfn zz_use_twin() -> int32 {\n    zz_twin() + 1\n}\n");
                files.insert("main.gom".to_string(), t.into_bytes());
                files.insert("Main.gom".to_string(), b"package Main\n\nfn zz_twin() -> int32 {\n    41\n}\n".to_vec());
                name.push_str("+case-twin");
            }
        }
        if i % 7 == 4 {
            // one source file that is not the entry file is a symbolic link
            if let Some(f) = files.keys().filter(|f| f.ends_with(".gom") && *f != "main.gom").nth(p.usize(4) % files.len().max(1)).or_else(|| files.keys().find(|f| f.ends_with(".gom") && *f != "main.gom")) {
                name.push_str(&format!("+symlink:{f}"));
            }
        }
        out.push(Case { name, files, predicted });
    }
    out
}

struct CaseResult {
    violations: Vec<Violation>,
    procs: u64,
    fingerprints: Vec<String>,
    multi: bool,
    sample: Option<Value>,
    probes: BTreeMap<&'static str, u64>,
    digest: String,
}

pub fn run_behaviour(go: compiler::go::goast::File, seed: u64) -> (String, String, usize) {
    let gp = Arc::new(goi::ProgData::new(go));
    let out = gort::run_go(&gp, Strategy::RoundRobin, seed, vec![], 200_000);
    let stop = match &out.stop {
        Stop::MainReturned => "returned".to_string(),
        Stop::Failed(_) => "failed".to_string(),
        Stop::Halted(m) => format!("halted:{m}"),
        Stop::Unsupported(w) => format!("unsupported:{w}"),
        Stop::Invalid(_) => "invalid-go".to_string(),
    };
    (out.stdout, stop, out.goroutines)
}

pub fn check_case(sb: &Sandbox, seed: u64, idx: usize, case: &Case, nsched: usize, replay_sched: Option<u64>) -> CaseResult {
    let mut r = CaseResult { violations: Vec::new(), procs: 0, fingerprints: Vec::new(), multi: false, sample: None, probes: BTreeMap::new(), digest: String::new() };
    let layout = Layout::scan(&case.files);
    r.multi = layout.pkgs.len() >= 2;
    sb.materialise(&case.files);
    link_out(sb, &case.name);
    // whole-program side
    let spec = ProcSpec { entropy: mix(&[seed, idx as u64, 1]), readdir: mix(&[seed, idx as u64, 2]), ..Default::default() };
    let (wsum, wcompiled, _) = ops::run_main(sb, &spec, false);
    r.procs += 1;
    let whole_ok = wsum.class == "compiled";
    let whole_panic = wsum.class == "panicked";
    // the same whole-program compilation, invoked as `goml run main.gom` from inside the project
    // directory: how the entry file is spelled must not change what is accepted or emitted
    if idx % 3 == 0 && !whole_panic {
        let bare = ops::run_main_bare(sb, &spec);
        r.procs += 1;
        *r.probes.entry("whole_program_also_invoked_with_bare_entry_path").or_insert(0) += 1;
        if bare.class != wsum.class {
            r.violations.push(Violation {
                property: PROP.into(),
                class: "acceptance-disagreement".to_string(),
                key: json!({"class": "acceptance-disagreement", "cause": "entry-path-spelling"}),
                what: format!(
                    "C14: project {}: whole-program compilation {} when invoked as `goml run /abs/path/main.gom` but {} when invoked as `goml run main.gom` from the project directory ({:?} {})",
                    case.name,
                    wsum.class,
                    bare.class,
                    bare.diagnostics.first(),
                    bare.message.chars().take(200).collect::<String>()
                ),
                replay: json!({"kind": "c14", "case": case.name, "class": "acceptance-disagreement", "schedule_seed": 0, "index": idx, "files": files_json(&case.files), "predicted": case.predicted}),
            });
        }
    }
    let pd = sha(serde_json::to_string(&files_json(&case.files)).unwrap().as_bytes());
    let mut whole_behaviour: Option<(String, String, usize)> = None;
    let mut refprog: Option<Arc<refi::RefProg>> = None;
    if let Some(c) = wcompiled {
        let c = *c;
        whole_behaviour = Some(run_behaviour(c.go, 7));
        refprog = Some(Arc::new(refi::RefProg::new(c.tast, c.genv)));
    }
    let mut first: Option<SepResult> = None;
    let mk = |class: &str, what: String, sched: u64| Violation {
        property: PROP.into(),
        class: class.to_string(),
        key: json!({"class": class}),
        what,
        replay: json!({"kind": "c14", "case": case.name, "class": class, "schedule_seed": sched, "index": idx, "files": files_json(&case.files), "predicted": case.predicted}),
    };
    for k in 0..nsched {
        let sseed = replay_sched.unwrap_or_else(|| mix(&[seed, idx as u64, k as u64, purpose("c14-schedule")]));
        sb.materialise(&case.files);
        link_out(sb, &case.name);
        let Some(sep) = separate(sb, &layout, &SepSchedule { seed: sseed }) else {
            // cyclic / missing imports: no build plan exists; whole-program must reject too
            if whole_ok {
                r.violations.push(mk("acceptance-disagreement", format!("C14: project {} has no valid build order (cycle or missing package) but whole-program compilation accepts it", case.name), sseed));
            }
            break;
        };
        r.procs += sep.procs;
        r.digest = sha(format!("{}{}{:?}", r.digest, serde_json::to_string(&sep.steps).unwrap(), sep.main_go.as_ref().map(|b| sha(b))).as_bytes());
        r.fingerprints.push(format!("{}:{}", &pd[..12], sha(format!("{:?}", sep.steps.iter().map(|s| (&s.op, &s.pkg, &s.dir)).collect::<Vec<_>>()).as_bytes())[..12].to_string()));
        if sep.steps.iter().any(|s| s.op == "check") {
            *r.probes.entry("schedules_with_interleaved_check").or_insert(0) += 1;
        }
        if sep.steps.iter().filter(|s| s.op == "build").count() > layout.pkgs.len() {
            *r.probes.entry("schedules_with_redundant_rebuild").or_insert(0) += 1;
        }
        if sep.steps.iter().map(|s| s.dir.clone()).filter(|d| d.starts_with("art")).collect::<std::collections::BTreeSet<_>>().len() >= 2 {
            *r.probes.entry("schedules_with_split_interface_dirs").or_insert(0) += 1;
        }
        // (1) acceptance agrees
        if whole_panic && sep.steps.iter().any(|s| s.result.starts_with("PANIC")) {
            // both pipelines crash: that is C04's business; acceptance cannot be compared
            *r.probes.entry("skipped_because_both_pipelines_panic").or_insert(0) += 1;
        } else if whole_ok != sep.ok {
            // (a pipeline that crashes has not accepted the project)
            let detail = match &sep.failure {
                Some((step, msg)) => format!("separate compilation fails at `{step}` ({msg})"),
                None => format!("separate compilation succeeds; whole-program says {}: {:?} {}", wsum.kind, wsum.diagnostics.first(), wsum.message),
            };
            r.violations.push(mk(
                "acceptance-disagreement",
                format!("C14: project {}: whole-program compilation {} but {}", case.name, if whole_ok { "accepts" } else { "rejects" }, detail),
                sseed,
            ));
            break;
        }
        // (2) check and build write the same interface
        for (pkg, cb) in sep.iface_check.iter() {
            if let Some(bb) = sep.iface_build.get(pkg) {
                if cb != bb {
                    r.violations.push(mk("check-build-interface-differs", format!("C14: project {}: `check` and `build` of package {} wrote different interface files", case.name, pkg), sseed));
                }
            }
        }
        // (3) artifacts do not depend on the schedule
        if let Some(f) = &first {
            if f.ok && sep.ok {
                let same = f.iface_build == sep.iface_build
                    && f.cores.iter().all(|(k, v)| sep.cores.get(k).map(|w| sb.normalise(&String::from_utf8_lossy(w)) == sb.normalise(&String::from_utf8_lossy(v))).unwrap_or(false))
                    && f.main_go == sep.main_go;
                if !same {
                    r.violations.push(mk("order-dependent-artifacts", format!("C14: project {}: artifacts differ between two valid build schedules", case.name), sseed));
                }
            }
        }
        // (4) behaviour of the linked program
        if sep.ok {
            match link_ast(sb, &sep.core_paths, mix(&[sseed, 99])) {
                Ok((go, text)) => {
                    if Some(text.as_bytes()) != sep.main_go.as_deref() {
                        r.violations.push(mk("link-api-cli-differ", format!("C14: project {}: main.go written by `goml link` differs from link_cores on the same cores", case.name), sseed));
                    }
                    let gp = Arc::new(goi::ProgData::new(go));
                    let out = gort::run_go(&gp, Strategy::RoundRobin, 7, vec![], 200_000);
                    let stop = match &out.stop {
                        Stop::MainReturned => "returned".to_string(),
                        Stop::Failed(_) => "failed".to_string(),
                        Stop::Halted(m) => format!("halted:{m}"),
                        Stop::Unsupported(w) => format!("unsupported:{w}"),
                        Stop::Invalid(_) => "invalid-go".to_string(),
                    };
                    if let Some((wout, wstop, wg)) = &whole_behaviour {
                        let unsupported = stop.starts_with("unsupported") || wstop.starts_with("unsupported");
                        if unsupported {
                            *r.probes.entry("behaviour_skipped_unsupported").or_insert(0) += 1;
                        } else if *wg <= 1 && out.goroutines <= 1 {
                            *r.probes.entry("behaviour_compared").or_insert(0) += 1;
                            if *wout != out.stdout || *wstop != stop {
                                r.violations.push(mk(
                                    "behaviour-differs",
                                    format!("C14: project {}: linked program prints {:?} ({}) but the whole-program build prints {:?} ({})", case.name, out.stdout, stop, wout, wstop),
                                    sseed,
                                ));
                            }
                        } else if let Some(rp) = &refprog {
                            // concurrent program: the linked program must refine the source
                            *r.probes.entry("behaviour_checked_by_refinement").or_insert(0) += 1;
                            let ch = c09::check_schedule(&gp, rp, Strategy::Random, mix(&[sseed, 5]), vec![], gort::DEFAULT_STEPS);
                            if let c09::Verdict::Violates(m) = ch.verdict {
                                r.violations.push(mk("behaviour-differs", format!("C14: project {}: linked program does not refine the source: {}", case.name, m.detail), sseed));
                            }
                        }
                        if let Some(pred) = &case.predicted {
                            if !unsupported && out.goroutines <= 1 && stop == "returned" {
                                *r.probes.entry("prediction_compared").or_insert(0) += 1;
                                if *pred != out.stdout {
                                    r.violations.push(mk(
                                        "prediction-differs",
                                        format!("C14: project {}: linked program prints {:?}, expected {:?}", case.name, out.stdout, pred),
                                        sseed,
                                    ));
                                }
                            }
                        }
                    }
                }
                Err(e) => {
                    r.violations.push(mk("link-api-cli-differ", format!("C14: project {}: `goml link` succeeded but link_cores on the same cores fails: {}", case.name, e), sseed));
                }
            }
        }
        if r.sample.is_none() && layout.pkgs.len() >= 2 {
            r.sample = Some(json!({
                "project": case.name,
                "packages": layout.pkgs.values().map(|p| json!({"name": p.name, "imports": p.imports, "files": p.files})).collect::<Vec<_>>(),
                "whole_program": wsum.class,
                "schedule": sep.steps,
            }));
        }
        if first.is_none() {
            first = Some(sep);
        }
        if !r.violations.is_empty() || replay_sched.is_some() {
            break;
        }
    }
    // (5) the same project on a parallel build farm: independent packages built concurrently
    // into one directory must leave what the sequential schedules leave
    if let Some(f) = &first {
        if f.ok && r.violations.is_empty() && replay_sched.is_none() && layout.pkgs.len() >= 3 && idx % 2 == 0 {
            let pseed = mix(&[seed, idx as u64, purpose("c14-parallel")]);
            sb.materialise(&case.files);
            link_out(sb, &case.name);
            if let Some((ok, ifaces, cores, main_go, procs, switches, steps)) = separate_parallel(sb, &layout, pseed) {
                r.procs += procs;
                *r.probes.entry("parallel_farm_projects").or_insert(0) += 1;
                *r.probes.entry("parallel_farm_scheduling_decisions").or_insert(0) += switches as u64;
                r.digest = sha(format!("{}{}", r.digest, serde_json::to_string(&steps).unwrap()).as_bytes());
                let same = ok
                    && f.iface_build == ifaces
                    && f.cores.iter().all(|(k, v)| cores.get(k).map(|w| sb.normalise(&String::from_utf8_lossy(w)) == sb.normalise(&String::from_utf8_lossy(v))).unwrap_or(false))
                    && f.main_go == main_go;
                if !same {
                    let failing = steps.iter().find(|s| s.result != "ok").map(|s| format!("{} {}: {}", s.op, s.pkg, s.result)).unwrap_or_else(|| "artifacts differ".into());
                    let mut v = mk("parallel-build-differs", format!("C14: project {}: building independent packages concurrently into one directory does not give what a sequential build gives ({})", case.name, failing), pseed);
                    v.replay["kind"] = json!("c14-parallel");
                    r.violations.push(v);
                }
            }
        }
    }
    r
}

pub fn run(opts: &Opts) -> i32 {
    let all = cases(opts);
    let nsched = if opts.tier == Tier::Quick { 4 } else { 16 };
    let mut ev = Evidence::new(
        PROP,
        "exploration",
        "cases = repository corpus (single-file programs, 8 multi-package projects, error programs) + generated multi-package projects (every sixth with type errors; long functions of 30-200 statements, empty array literals, strings with backslash / quote / non-ASCII, structs deriving ToString and ToJson, float constants, extern declarations, closures across packages); each is compiled whole-program once (every third also as `goml run main.gom` from inside the project directory: acceptance must not depend on how the entry file is spelled) and separately under K seeded schedules (random linear extension of the import DAG, interleaved redundant `check`/`build`, shuffled --input/--interface-path/link arguments, artifacts split over 1-2 interface directories); oracles: acceptance agrees, check == build interface bytes, artifacts independent of schedule, `goml link` == link_cores, linked program behaves like the whole-program build on the simulated Go runtime (and like the generator's prediction). distinct = distinct (project, executed step sequence); non-trivial = project with >= 2 packages",
    );
    ev.components_real = harness::REAL_COMPONENTS.iter().map(|s| s.to_string()).collect();
    ev.components_stub = harness::STUB_COMPONENTS.iter().map(|s| s.to_string()).collect();
    ev.assumptions = vec![
        "behaviour is compared on the stub Go runtime (both programs run on the same stub, so a shared infidelity cancels)".into(),
        "no storage faults here (they belong to C15); processes of one schedule run one after another".into(),
    ];
    let results = harness::parallel_with(
        all.len(),
        opts.workers,
        |w| Sandbox::new(&format!("c14w{w}")).expect("sandbox"),
        |sb, i| check_case(sb, opts.seed, i, &all[i], nsched, None),
    );
    // stores written by the earlier release of the compiler (c14fix.rs)
    let (fx, nfix) = crate::props::c14fix::phase(opts, harness::VERIF_DIR);
    harness::print_run_digest(
        &results
            .iter()
            .map(|r| format!("{}{}", r.digest, r.violations.len()))
            .chain(fx.iter().map(|r| format!("fx{}{}", r.digest, r.violations.len())))
            .collect::<Vec<_>>(),
    );
    let mut violations: Vec<Violation> = Vec::new();
    let mut multi = 0u64;
    let mut fixture_sampled = false;
    for r in results {
        ev.evaluations += r.procs;
        if r.multi {
            multi += 1;
            ev.distinct.extend(r.fingerprints);
            if let Some(smp) = r.sample {
                ev.sample(smp);
            }
        }
        for (k, v) in r.probes {
            ev.probe(k, v);
        }
        violations.extend(r.violations);
    }
    let mut fixture_procs = 0u64;
    for r in fx {
        ev.evaluations += r.procs;
        fixture_procs += r.procs;
        for (k, v) in r.probes {
            ev.probe(k, v);
        }
        if let Some(smp) = r.sample {
            if !fixture_sampled {
                ev.sample(smp);
                fixture_sampled = true;
            }
        }
        violations.extend(r.violations);
    }
    ev.extra.insert("old_release_fixture_projects".into(), json!(nfix));
    ev.extra.insert("old_release_fixture_processes".into(), json!(fixture_procs));
    ev.fault("history:store-written-by-the-earlier-release(all-old|subset-rebuilt-in-place)", fixture_procs);
    // minimise: drop `main` print statements (and with them whole call trees) while the same
    // class of violation persists under the same schedule
    if !opts.dry {
        let sb = Sandbox::new("c14shrink").expect("sandbox");
        for v in violations.iter_mut().take(5) {
            shrink_violation(&sb, v);
        }
    }
    ev.extra.insert("projects".into(), json!(all.len()));
    ev.extra.insert("projects_multi_package".into(), json!(multi));
    ev.extra.insert("schedules_per_project".into(), json!(nsched));
    ev.extra.insert("simulated_time".into(), json!("not applicable: no clock is read by the compiler"));
    ev.fault("schedule:build-order+argument-order", ev.evaluations);
    let nviol = violations.len();
    let outcome = harness::conclude(PROP, violations, opts, &harness::verify_in_fresh_process);
    ev.write(opts, outcome.unlisted as usize, nviol);
    println!(
        "C14 {}: {} projects ({} multi-package) x {} schedules, {} simulated processes, {} violations ({} known), {:.1}s",
        opts.tier.name(),
        all.len(),
        multi,
        nsched,
        ev.evaluations,
        outcome.unlisted,
        outcome.known,
        ev.start.elapsed().as_secs_f64()
    );
    outcome.exit_code
}

pub fn replay(file: &Value) -> bool {
    let r = &file["replay"];
    if r["kind"] == "c14-fixture" {
        return crate::props::c14fix::replay(file);
    }
    let files = files_from_json(&r["files"]);
    let sb = Sandbox::new("c14replay").expect("sandbox");
    let case = Case {
        name: r["case"].as_str().unwrap_or("replay").to_string(),
        files,
        predicted: r["predicted"].as_str().map(|x| x.to_string()),
    };
    let sched = r["schedule_seed"].as_u64().unwrap_or(0);
    // order-dependent-artifacts needs a second schedule to compare with
    let class = r["class"].as_str().unwrap_or("");
    let res = if r["kind"] == "c14-parallel" {
        // the parallel farm is compared with the first sequential schedule; both are functions of
        // (seed, index), so the case is simply run again (the parallel phase runs for even indices)
        check_case(&sb, file["seed"].as_u64().unwrap_or(0), r["index"].as_u64().unwrap_or(0) as usize, &case, 1, None)
    } else if class == "order-dependent-artifacts" {
        check_case(&sb, file["seed"].as_u64().unwrap_or(0), r["index"].as_u64().unwrap_or(0) as usize, &case, 16, None)
    } else {
        check_case(&sb, file["seed"].as_u64().unwrap_or(0), r["index"].as_u64().unwrap_or(0) as usize, &case, 1, Some(sched))
    };
    for v in &res.violations {
        println!("replayed: {}", v.what);
    }
    res.violations.iter().any(|v| v.class == class)
}

#[allow(dead_code)]
fn unused(_: &str) -> String {
    s("")
}

pub fn check_case_debug(sb: &Sandbox, case: &Case) -> Vec<String> {
    let r = check_case(sb, 0, 0, case, 2, None);
    let mut out: Vec<String> = r.violations.iter().map(|v| v.what.clone()).collect();
    out.push(format!("probes: {:?}", r.probes));
    out
}


fn shrink_violation(sb: &Sandbox, v: &mut Violation) {
    let r = v.replay.clone();
    let mut files = files_from_json(&r["files"]);
    let class = r["class"].as_str().unwrap_or("").to_string();
    if class == "order-dependent-artifacts" || r["kind"] == "c14-fixture" || r["kind"] == "c14-parallel" {
        return;
    }
    let sched = r["schedule_seed"].as_u64().unwrap_or(0);
    let idx = r["index"].as_u64().unwrap_or(0) as usize;
    let still = |fs: &Files| -> bool {
        let case = Case { name: "shrink".into(), files: fs.clone(), predicted: None };
        check_case(sb, 0, idx, &case, 1, Some(sched)).violations.iter().any(|x| x.class == class)
    };
    let Some(main) = files.get("main.gom").cloned() else { return };
    let mut lines: Vec<String> = String::from_utf8_lossy(&main).lines().map(|l| l.to_string()).collect();
    let mut i = 0;
    while i < lines.len() {
        if lines[i].starts_with("    string_println(") {
            let mut t = lines.clone();
            t.remove(i);
            let mut f2 = files.clone();
            f2.insert("main.gom".into(), (t.join("\n") + "\n").into_bytes());
            if still(&f2) {
                lines = t;
                files = f2;
                continue;
            }
        }
        i += 1;
    }
    v.replay["files"] = files_json(&files);
    v.replay["predicted"] = Value::Null;
}
