//! C09 — evaluation order, effects and `go`.
//!
//! The emitted Go AST of generated and corpus programs runs on the simulated Go runtime under a
//! seeded goroutine schedule and produces a history T (global event sequence). The reference
//! interpreter's activations are then driven *by T* (trace refinement): each event of T made by
//! goroutine g must be exactly the next effect of reference activation g. Effects (print, Ref
//! store, spawn, sleep, failure, exit) are strict; reads are aligned leniently.

use crate::genp::conc::{self, ConcCfg};
use crate::gort::co::{CoState, Controller, Ev, Event, GState, Gid, Pending, STRATEGIES, Stop, Strategy};
use crate::gort::{self, goi, refi};
use crate::harness::{self, Evidence, Opts, Tier, Violation};
use crate::ops;
use crate::prng::{Prng, mix, purpose};
use crate::world::{Files, ProcSpec, Sandbox, sha};
use serde_json::{Value, json};
use std::collections::HashMap;
use std::sync::Arc;

pub const PROP: &str = "C09";

#[derive(Clone, Debug)]
pub struct Mismatch {
    pub class: String,
    pub detail: String,
    pub at: usize,
}

pub struct Follower {
    trace: Arc<Vec<Event>>,
    i: usize,
    cell_c2r: HashMap<usize, usize>,
    cell_r2c: HashMap<usize, usize>,
    /// (gid released, whether its next event must match trace[i], #events before release)
    awaiting: Option<(Gid, bool, usize)>,
    pub mismatch: Option<Mismatch>,
    pub skipped_compiled_loads: u64,
    pub extra_reference_loads: u64,
    /// consecutive lenient moves without a matched event (bounds spin loops)
    lenient_run: u32,
}

const LENIENT_RUN_LIMIT: u32 = 64;

impl Follower {
    pub fn new(trace: Arc<Vec<Event>>) -> Follower {
        Follower {
            trace,
            i: 0,
            cell_c2r: HashMap::new(),
            cell_r2c: HashMap::new(),
            awaiting: None,
            mismatch: None,
            skipped_compiled_loads: 0,
            extra_reference_loads: 0,
            lenient_run: 0,
        }
    }

    fn map_cell(&mut self, c: usize, r: usize) -> bool {
        match (self.cell_c2r.get(&c), self.cell_r2c.get(&r)) {
            (Some(x), Some(y)) => *x == r && *y == c,
            (None, None) => {
                self.cell_c2r.insert(c, r);
                self.cell_r2c.insert(r, c);
                true
            }
            _ => false,
        }
    }

    fn compare(&mut self, want: &Event, got: &Event) {
        let ok = match (&want.ev, &got.ev) {
            (Ev::Print(a), Ev::Print(b)) => a == b,
            (Ev::Store { cell: c, val: a }, Ev::Store { cell: r, val: b }) => {
                self.map_cell(*c, *r) && (a == b || a == "*" || b == "*")
            }
            (Ev::Load { cell: c, val: a }, Ev::Load { cell: r, val: b }) => {
                self.map_cell(*c, *r) && (a == b || a == "*" || b == "*")
            }
            (Ev::Spawn { child: a }, Ev::Spawn { child: b }) => a == b,
            (Ev::Sleep(a), Ev::Sleep(b)) => a == b,
            (Ev::Fail(_), Ev::Fail(_)) => true,
            (Ev::Exit, Ev::Exit) => true,
            _ => false,
        };
        if !ok || want.gid != got.gid {
            self.mismatch = Some(Mismatch {
                class: if want.ev.class() == got.ev.class() { "value-mismatch".into() } else { "effect-mismatch".into() },
                detail: format!(
                    "event #{} of the compiled program: goroutine {} does {:?}, but the source semantics give goroutine {} {:?}",
                    self.i, want.gid, want.ev, got.gid, got.ev
                ),
                at: self.i,
            });
        }
    }

    /// Account for what the last released goroutine did.
    fn settle(&mut self, events: &[Event]) {
        if let Some((g, matching, before)) = self.awaiting.take() {
            let new: Vec<&Event> = events[before..].iter().collect();
            if matching {
                match new.first() {
                    Some(ev) => {
                        let want = self.trace[self.i].clone();
                        let got = (*ev).clone();
                        self.compare(&want, &got);
                        self.i += 1;
                        self.lenient_run = 0;
                    }
                    None => {
                        self.mismatch = Some(Mismatch {
                            class: "missing-effect".into(),
                            detail: format!(
                                "event #{}: compiled goroutine {} does {:?}; the reference activation produced no event",
                                self.i, g, self.trace[self.i].ev
                            ),
                            at: self.i,
                        });
                    }
                }
            }
        }
    }

    pub fn finish(&mut self, events: &[Event]) {
        if self.mismatch.is_none() {
            self.settle(events);
        }
    }

    pub fn complete(&self) -> bool {
        self.i >= self.trace.len()
    }
}

impl Controller for Follower {
    fn pick(&mut self, st: &CoState, _runnable: &[Gid]) -> Result<Gid, String> {
        self.settle(&st.events);
        loop {
            if self.mismatch.is_some() {
                return Err("mismatch".into());
            }
            if self.i >= self.trace.len() {
                return Err("trace complete".into());
            }
            let e = self.trace[self.i].clone();
            let g = e.gid;
            if g >= st.gs.len() || st.gs[g].state == GState::Done {
                self.mismatch = Some(Mismatch {
                    class: "extra-effect".into(),
                    detail: format!(
                        "event #{}: compiled goroutine {} does {:?}, but the corresponding source activation {} ",
                        self.i,
                        g,
                        e.ev,
                        if g >= st.gs.len() { "does not exist" } else { "has already finished" }
                    ),
                    at: self.i,
                });
                continue;
            }
            let pending = st.gs[g].pending.clone();
            let before = st.events.len();
            match (&e.ev, &pending) {
                (_, Pending::Start) | (_, Pending::Backedge) => {
                    self.awaiting = Some((g, false, before));
                    return Ok(g);
                }
                (Ev::Load { cell: c, val }, Pending::Load(r)) => {
                    // pair the two reads only if they can be the same read: consistent cell
                    // correspondence and the value the reference cell holds right now
                    let consistent = match (self.cell_c2r.get(c), self.cell_r2c.get(r)) {
                        (Some(x), _) => x == r,
                        (None, Some(_)) => false,
                        (None, None) => true,
                    };
                    let same_val = st.cell_vals.get(*r).map(|v| v == val || v == "*" || val == "*").unwrap_or(true);
                    if consistent && same_val {
                        self.awaiting = Some((g, true, before));
                        return Ok(g);
                    }
                    // otherwise the compiled program reads something the source does not read
                    // here: skip it (reads are not observable effects)
                    self.skipped_compiled_loads += 1;
                    self.lenient_run += 1;
                    self.i += 1;
                    continue;
                }
                (Ev::Load { .. }, _) => {
                    // the compiled program reads where the source does not: harmless
                    self.skipped_compiled_loads += 1;
                    self.i += 1;
                    continue;
                }
                (ev, Pending::Load(_)) => {
                    // the source reads where the compiled program does not (a dropped dead
                    // load): perform it here and go on — but not forever (a source activation
                    // spinning on a cell while the compiled one has moved on is a mismatch)
                    self.extra_reference_loads += 1;
                    self.lenient_run += 1;
                    if self.lenient_run > LENIENT_RUN_LIMIT {
                        self.mismatch = Some(Mismatch {
                            class: "effect-mismatch".into(),
                            detail: format!(
                                "event #{}: compiled goroutine {} does {:?} where the source semantics keep reading shared cells",
                                self.i, g, ev
                            ),
                            at: self.i,
                        });
                        continue;
                    }
                    self.awaiting = Some((g, false, before));
                    return Ok(g);
                }
                (ev, p) if ev.class() == p.class() => {
                    self.awaiting = Some((g, true, before));
                    return Ok(g);
                }
                (ev, p) => {
                    self.mismatch = Some(Mismatch {
                        class: "effect-mismatch".into(),
                        detail: format!(
                            "event #{}: compiled goroutine {} does {:?} where the source semantics next perform a `{}`",
                            self.i,
                            g,
                            ev,
                            p.class()
                        ),
                        at: self.i,
                    });
                    continue;
                }
            }
        }
    }
}

#[derive(Clone, Debug)]
pub enum Verdict {
    Refines,
    PrefixRefines,
    Skipped(String),
    Violates(Mismatch),
}

pub struct Checked {
    pub verdict: Verdict,
    pub go_events: Vec<Event>,
    pub schedule: Vec<Gid>,
    pub stop: Stop,
    pub sim_time_ns: u64,
    pub goroutines: usize,
    pub lenient: (u64, u64),
}

thread_local! {
    /// set while generated programs are checked (and while such a finding is replayed)
    pub static STRICT_LIVENESS: std::cell::Cell<bool> = const { std::cell::Cell::new(false) };
}

/// One schedule of one program: run compiled, then drive the reference along its history.
pub fn check_schedule(
    gp: &Arc<goi::ProgData>,
    rp: &Arc<refi::RefProg>,
    strategy: Strategy,
    seed: u64,
    forced: Vec<Gid>,
    max_steps: u64,
) -> Checked {
    let out = gort::run_go(gp, strategy, seed, forced, max_steps);
    let mut checked = Checked {
        verdict: Verdict::Refines,
        go_events: out.events.clone(),
        schedule: out.schedule.clone(),
        stop: out.stop.clone(),
        sim_time_ns: out.sim_time_ns,
        goroutines: out.goroutines,
        lenient: (0, 0),
    };
    if let Stop::Unsupported(w) = &out.stop {
        checked.verdict = Verdict::Skipped(format!("stub runtime: {w}"));
        return checked;
    }
    if let Stop::Invalid(w) = &out.stop {
        // an emitted program that is not valid Go has no behaviour to compare; that is C02's
        // business (not claimed), so it is skipped and counted here
        checked.verdict = Verdict::Skipped(format!("emitted program is not valid Go: {w}"));
        return checked;
    }
    let co = crate::gort::co::Co::new();
    co.m.lock().unwrap().no_block_sleep = true;
    refi::start(rp.clone(), &co);
    let f = Follower::new(Arc::new(out.events.clone()));
    let (rout, mut f) = crate::gort::co::drive(&co, f, max_steps * 4 + 1000);
    f.finish(&rout.events);
    checked.lenient = (f.skipped_compiled_loads, f.extra_reference_loads);
    if let Stop::Unsupported(w) = &rout.stop {
        checked.verdict = Verdict::Skipped(w.clone());
        return checked;
    }
    if let Some(m) = f.mismatch.clone() {
        checked.verdict = Verdict::Violates(m);
        return checked;
    }
    if !f.complete() {
        // the reference stopped (finished / failed) before the compiled history was consumed
        let i = f.i;
        checked.verdict = Verdict::Violates(Mismatch {
            class: "termination-mismatch".into(),
            detail: format!(
                "the source semantics end ({:?}) after {} events, but the compiled program goes on with {:?}",
                rout.stop,
                i,
                out.events.get(i).map(|e| &e.ev)
            ),
            at: i,
        });
        return checked;
    }
    match (&out.stop, &rout.stop) {
        (Stop::MainReturned, Stop::MainReturned) | (Stop::Failed(_), Stop::Failed(_)) => {
            if out.stdout != rout.stdout {
                checked.verdict = Verdict::Violates(Mismatch {
                    class: "stdout-mismatch".into(),
                    detail: format!("stdout differs: compiled {:?} vs source {:?}", out.stdout, rout.stdout),
                    at: out.events.len(),
                });
            }
        }
        // bounded liveness, for generated programs (their loops are tiny): the compiled program
        // has used up its step budget with a single goroutine left, or with a goroutine that took
        // thousands of loop back-edges without reading a shared cell or performing an effect —
        // nobody can end such a loop — while the source semantics, after the very same events,
        // come to an end
        // bounded liveness, for generated programs (their loops are tiny and every one reads a
        // shared cell): the compiled program has used up its step budget while one goroutine took
        // thousands of loop back-edges in a row without reading a shared cell or performing an
        // effect — nobody can end such a loop — and the source semantics, run freely under the
        // same strategy and budget, come to an end without ever doing that
        (Stop::Halted(why), _) if STRICT_LIVENESS.with(|c| c.get()) && why == "step budget exhausted" && out.max_blind_spins >= 2_000 => {
            let free = gort::run_ref(rp, crate::gort::co::Seeded::new(strategy, seed, vec![]), max_steps).0;
            if matches!(free.stop, Stop::MainReturned | Stop::Failed(_)) || free.max_blind_spins < 100 {
                checked.verdict = Verdict::Violates(Mismatch {
                    class: "compiled-spins-forever".into(),
                    detail: format!(
                        "after {} common events a goroutine of the compiled program loops without reading a shared cell or performing an effect ({} back-edges in a row, step budget exhausted); under the source semantics no loop does that (free run: {:?}, at most {} such back-edges)",
                        out.events.len(),
                        out.max_blind_spins,
                        free.stop,
                        free.max_blind_spins
                    ),
                    at: out.events.len(),
                });
            } else {
                checked.verdict = Verdict::PrefixRefines;
            }
        }
        (Stop::Halted(_), _) => {
            if std::env::var("VERIF_DEBUG").is_ok() {
                eprintln!("halted: compiled {:?} live={} blind={} reference {:?}", out.stop, out.live_at_stop, out.max_blind_spins, rout.stop);
            }
            checked.verdict = Verdict::PrefixRefines
        }
        (a, b) => {
            checked.verdict = Verdict::Violates(Mismatch {
                class: "termination-mismatch".into(),
                detail: format!("compiled program ends with {:?}, source semantics with {:?}", a, b),
                at: out.events.len(),
            })
        }
    }
    checked
}

pub struct Compiled2 {
    pub gp: Arc<goi::ProgData>,
    pub rp: Arc<refi::RefProg>,
}

/// The same program with the effects of its helper functions removed: every line in front of
/// `fn main` that is a bare `string_println(..);` / `ref_set(..);` statement goes. Functions keep
/// their names and signatures, so anything a compiler remembers *by name* from one compilation
/// to the next ("this function is pure") is wrong for the real program.
fn neutralised_twin(text: &str) -> Option<String> {
    let cut = text.find("fn main(")?;
    let (head, tail) = text.split_at(cut);
    let mut out = String::new();
    let mut changed = false;
    for line in head.lines() {
        let t = line.trim();
        if (t.starts_with("string_println(") || t.starts_with("ref_set(") || t.starts_with("string_print(")) && t.ends_with(");") {
            changed = true;
            continue;
        }
        out.push_str(line);
        out.push('\n');
    }
    if !changed {
        return None;
    }
    // main itself is reduced to nothing: only the helpers matter
    let _ = tail;
    out.push_str("fn main() -> unit {\n    ()\n}\n");
    Some(out)
}

pub static WARM_COMPILES: std::sync::atomic::AtomicU64 = std::sync::atomic::AtomicU64::new(0);

pub fn compile_files(sb: &Sandbox, files: &Files, entropy: u64) -> Result<Compiled2, String> {
    let spec = ProcSpec { entropy, readdir: entropy, ..Default::default() };
    // one compilation in three happens in a process that has compiled the neutralised twin of
    // the program just before (a function of the entropy seed, so replays need nothing extra)
    let twin = if entropy % 3 == 0 && files.len() == 1 {
        files.get("main.gom").and_then(|b| std::str::from_utf8(b).ok()).and_then(neutralised_twin)
    } else {
        None
    };
    let (sum, compiled) = match twin {
        Some(t) => {
            let mut both = files.clone();
            both.insert("zzwarm/main.gom".into(), t.into_bytes());
            sb.materialise(&both);
            WARM_COMPILES.fetch_add(1, std::sync::atomic::Ordering::Relaxed);
            ops::run_main_after(sb, &spec, "zzwarm/main.gom")
        }
        None => {
            sb.materialise(files);
            let (sum, compiled, _) = ops::run_main(sb, &spec, false);
            (sum, compiled)
        }
    };
    match compiled {
        Some(c) => {
            let c = *c;
            Ok(Compiled2 {
                gp: Arc::new(goi::ProgData::new(c.go)),
                rp: Arc::new(refi::RefProg::new(c.tast, c.genv)),
            })
        }
        None => Err(format!("{}:{}:{:?}{}", sum.class, sum.kind, sum.diagnostics.first(), sum.message)),
    }
}

fn single(text: &str) -> Files {
    let mut f = Files::new();
    f.insert("main.gom".into(), text.as_bytes().to_vec());
    f
}

struct ProgResult {
    violation: Option<Violation>,
    schedules: u64,
    fingerprints: Vec<String>,
    skipped: Option<String>,
    not_compiled: Option<String>,
    probes: HashMap<&'static str, u64>,
    sim_ns: u64,
    sample: Option<Value>,
    prefix_only: u64,
    lenient: (u64, u64),
    strategies: HashMap<String, u64>,
    digest: String,
}

fn probe_trace(ev: &[Event], probes: &mut HashMap<&'static str, u64>) {
    // preemption between a read and the dependent write of the same cell
    for (i, e) in ev.iter().enumerate() {
        if let Ev::Load { cell, .. } = &e.ev {
            let mut interfered = false;
            for l in ev.iter().skip(i + 1) {
                if let Ev::Store { cell: c2, .. } = &l.ev {
                    if c2 == cell {
                        if l.gid == e.gid {
                            if interfered {
                                *probes.entry("preempted_between_read_and_write_of_a_cell").or_insert(0) += 1;
                            }
                            break;
                        } else {
                            interfered = true;
                        }
                    }
                }
            }
        }
        if let Ev::Spawn { child } = &e.ev {
            // who acts first after the spawn: the child or the spawner?
            for l in ev.iter().skip(i + 1) {
                if matches!(l.ev, Ev::Load { .. }) {
                    continue;
                }
                if l.gid == *child {
                    *probes.entry("child_acted_before_spawners_next_effect").or_insert(0) += 1;
                    break;
                }
                if l.gid == e.gid {
                    *probes.entry("spawner_acted_before_child").or_insert(0) += 1;
                    break;
                }
            }
        }
        if let Ev::Fail(_) = &e.ev {
            if e.gid != 0 {
                *probes.entry("failure_inside_child_activation").or_insert(0) += 1;
            } else {
                *probes.entry("failure_in_main").or_insert(0) += 1;
            }
        }
        if let Ev::Sleep(_) = &e.ev {
            *probes.entry("sleep_on_simulated_clock").or_insert(0) += 1;
        }
    }
    if let Some(last) = ev.last() {
        if last.gid == 0 && matches!(last.ev, Ev::Exit) {
            let unfinished = ev.iter().filter(|e| matches!(e.ev, Ev::Spawn { .. })).count()
                > ev.iter().filter(|e| e.gid != 0 && matches!(e.ev, Ev::Exit)).count();
            if unfinished {
                *probes.entry("main_returned_while_children_alive").or_insert(0) += 1;
            }
        }
    }
}

fn trace_shape(ev: &[Event]) -> String {
    let mut s = String::new();
    for e in ev {
        s.push_str(&format!("{}{};", e.gid, &e.ev.class()[..2]));
    }
    s
}

/// Line-based shrinking of the program text while the same violation class persists.
fn shrink_source(sb: &Sandbox, text: &str, strategy: Strategy, seed: u64, class: &str, entropy: u64) -> String {
    let still = |t: &str| -> bool {
        let Ok(c) = compile_files(sb, &single(t), entropy) else { return false };
        for k in 0..4u64 {
            let ch = check_schedule(&c.gp, &c.rp, strategy, seed.wrapping_add(k), vec![], gort::DEFAULT_STEPS);
            if let Verdict::Violates(m) = &ch.verdict {
                if m.class == class {
                    return true;
                }
            }
        }
        false
    };
    let mut cur: Vec<String> = text.lines().map(|l| l.to_string()).collect();
    for _round in 0..3 {
        let mut changed = false;
        let mut i = 0;
        while i < cur.len() {
            let l = cur[i].trim();
            let balanced = l.matches('{').count() == l.matches('}').count() && l.matches('(').count() == l.matches(')').count();
            let removable = balanced && l.ends_with(';') && !l.starts_with("let r") && !l.starts_with("let done");
            if removable {
                let mut t = cur.clone();
                t.remove(i);
                if still(&t.join("\n")) {
                    cur = t;
                    changed = true;
                    continue;
                }
            }
            i += 1;
        }
        if !changed {
            break;
        }
    }
    cur.join("\n") + "\n"
}

fn check_program(sb: &Sandbox, opts: &Opts, idx: usize, name: &str, text_or_files: &Files, nsched: usize) -> ProgResult {
    STRICT_LIVENESS.with(|c| c.set(name.starts_with("conc/")));
    let mut r = ProgResult {
        violation: None,
        schedules: 0,
        fingerprints: Vec::new(),
        skipped: None,
        not_compiled: None,
        probes: HashMap::new(),
        sim_ns: 0,
        sample: None,
        prefix_only: 0,
        lenient: (0, 0),
        strategies: HashMap::new(),
        digest: String::new(),
    };
    let t0 = std::time::Instant::now();
    let _timer = Timer(t0, name.to_string());
    let entropy = mix(&[opts.seed, idx as u64, purpose("c09-entropy")]);
    let c = match compile_files(sb, text_or_files, entropy) {
        Ok(c) => c,
        Err(e) => {
            r.not_compiled = Some(e);
            return r;
        }
    };
    let pd = sha(&text_or_files.get("main.gom").cloned().unwrap_or_default());
    let src = String::from_utf8_lossy(text_or_files.get("main.gom").map(|v| v.as_slice()).unwrap_or(b"")).to_string();
    if src.matches("    go g").count() >= 2 {
        *r.probes.entry("same_closure_spawned_twice").or_insert(0) += 1;
    }
    for k in 0..nsched {
        let strategy = STRATEGIES[k % STRATEGIES.len()];
        let seed = mix(&[opts.seed, idx as u64, k as u64, purpose("c09-schedule")]);
        let ch = check_schedule(&c.gp, &c.rp, strategy, seed, vec![], gort::DEFAULT_STEPS);
        r.schedules += 1;
        r.digest = sha(format!("{}{:?}{:?}{:?}", r.digest, ch.go_events.iter().map(|e| (e.gid, &e.ev)).collect::<Vec<_>>(), ch.schedule, ch.verdict).as_bytes());
        *r.strategies.entry(format!("{strategy:?}")).or_insert(0) += 1;
        r.sim_ns += ch.sim_time_ns;
        r.lenient.0 += ch.lenient.0;
        r.lenient.1 += ch.lenient.1;
        match &ch.verdict {
            Verdict::Skipped(w) => {
                r.skipped = Some(w.clone());
                break;
            }
            Verdict::PrefixRefines => r.prefix_only += 1,
            Verdict::Refines => {}
            Verdict::Violates(m) => {
                // minimise: simplest strategy that still shows it, then shrink the program text
                let mut strat = strategy;
                let mut sd = seed;
                for s in [Strategy::RunToCompletion, Strategy::RoundRobin, Strategy::ChildFirst] {
                    let t = check_schedule(&c.gp, &c.rp, s, 0, vec![], gort::DEFAULT_STEPS);
                    if matches!(&t.verdict, Verdict::Violates(m2) if m2.class == m.class) {
                        strat = s;
                        sd = 0;
                        break;
                    }
                }
                let single_file = text_or_files.len() == 1;
                let small = if single_file && harness::may_shrink() { shrink_source(sb, &src, strat, sd, &m.class, entropy) } else { src.clone() };
                let files = if single_file { single(&small) } else { text_or_files.clone() };
                // final, exact replay data: the full schedule of the failing run on the shrunk program
                let (sched, detail, class) = match compile_files(sb, &files, entropy) {
                    Ok(c2) => {
                        let mut found = None;
                        for kk in 0..8u64 {
                            let t = check_schedule(&c2.gp, &c2.rp, strat, sd.wrapping_add(kk), vec![], gort::DEFAULT_STEPS);
                            if let Verdict::Violates(m2) = &t.verdict {
                                if m2.class == m.class {
                                    found = Some((t.schedule.clone(), m2.detail.clone(), m2.class.clone()));
                                    break;
                                }
                            }
                        }
                        found.unwrap_or((ch.schedule.clone(), m.detail.clone(), m.class.clone()))
                    }
                    Err(_) => (ch.schedule.clone(), m.detail.clone(), m.class.clone()),
                };
                r.violation = Some(Violation {
                    property: PROP.into(),
                    class: class.clone(),
                    key: json!({"class": class, "construct": construct_key(&detail, &small)}),
                    what: format!("C09: program {name}: {detail}"),
                    replay: json!({
                        "kind": "c09",
                        "program": name,
                        "files": crate::props::c13::files_json(&files),
                        "strategy": strat,
                        "schedule": sched,
                        "class": class,
                        "entropy": entropy,
                    }),
                });
                break;
            }
        }
        if !matches!(ch.verdict, Verdict::Skipped(_)) {
            probe_trace(&ch.go_events, &mut r.probes);
            if ch.goroutines >= 2 {
                r.fingerprints.push(format!("{}:{}", &pd[..12], sha(trace_shape(&ch.go_events).as_bytes())[..16].to_string()));
            }
            if r.sample.is_none() && ch.goroutines >= 2 && ch.go_events.len() <= 60 {
                r.sample = Some(json!({
                    "program": name,
                    "source": src,
                    "strategy": format!("{strategy:?}"),
                    "schedule": ch.schedule,
                    "history": ch.go_events.iter().map(|e| format!("#{} g{} {:?}", e.seq, e.gid, e.ev)).collect::<Vec<_>>(),
                    "verdict": format!("{:?}", ch.verdict),
                }));
            }
        }
    }
    r
}

struct Timer(std::time::Instant, String);
impl Drop for Timer {
    fn drop(&mut self) {
        if std::env::var("VERIF_TIMING").is_ok() {
            eprintln!("TIMING {:.3}s {}", self.0.elapsed().as_secs_f64(), self.1);
        }
    }
}

/// Structural key of a violation for known-findings matching: which construct is involved.
fn construct_key(detail: &str, shrunk_source: &str) -> String {
    if detail.contains("Fail") || detail.contains("`fail`") {
        if shrunk_source.contains(" / ") {
            return "failing-division".into();
        }
        if shrunk_source.contains("array_get") {
            return "failing-index".into();
        }
        return "failing-operation".into();
    }
    "other".into()
}

pub fn programs(opts: &Opts) -> Vec<(String, Files)> {
    let mut out = Vec::new();
    for c in ops::corpus() {
        if c.expected_out.is_some() {
            out.push((c.name, c.files));
        }
    }
    let n = opts.n(2500, 40000);
    for i in 0..n {
        let mut p = Prng::derive(opts.seed, i as u64, "c09-program");
        let cfg = ConcCfg::swarm(&mut p);
        out.push((format!("conc/{i}"), single(&conc::generate(&mut p, &cfg))));
    }
    out
}

pub fn run(opts: &Opts) -> i32 {
    let progs = programs(opts);
    let nsched = if opts.tier == Tier::Quick { 6 } else { 30 };
    let mut ev = Evidence::new(
        PROP,
        "exploration",
        "programs = corpus programs with recorded output + generated concurrent programs (0-3 `go` activations over shared Ref cells, effects in operand/argument/branch/condition/discarded positions, optional failing operations and simulated-clock sleeps); each runs under K seeded goroutine schedules (random, PCT, run-to-completion, round-robin, starve-one, child-first) and the reference interpreter is driven along the compiled history (trace refinement). distinct = distinct (program, event-order shape); non-trivial = run with >=2 goroutines",
    );
    ev.components_real = harness::REAL_COMPONENTS.iter().map(|s| s.to_string()).collect();
    ev.components_stub = vec![
        "Go compiler + runtime + goroutine scheduler + time: stub (gort interprets compiler::go::goast; validated against the repository's recorded outputs)".into(),
        "goml source semantics: reference interpreter over Compilation.tast".into(),
        "Go pretty-printer: outside the loop (the AST is interpreted, not the text)".into(),
    ];
    ev.assumptions = vec![
        "front end up to type checking is trusted (the reference model interprets the typed AST)".into(),
        "a pass means: this compiled behaviour is a behaviour of the source under some interleaving of source-level atomic steps; no claim that all source behaviours are reachable".into(),
        "Ref operations are atomic steps (no Go memory-model weak behaviours)".into(),
    ];
    let results = harness::parallel_with(
        progs.len(),
        opts.workers,
        |w| Sandbox::new(&format!("c09w{w}")).expect("sandbox"),
        |sb, i| check_program(sb, opts, i, &progs[i].0, &progs[i].1, nsched),
    );
    harness::print_run_digest(&results.iter().map(|r| r.digest.clone()).collect::<Vec<_>>());
    let mut violations = Vec::new();
    let (mut skipped, mut not_compiled, mut prefix, mut sim_ns) = (0u64, 0u64, 0u64, 0u64);
    let mut skip_reasons: HashMap<String, u64> = HashMap::new();
    let mut nc_reasons: HashMap<String, u64> = HashMap::new();
    let mut lenient = (0u64, 0u64);
    let mut strategies: HashMap<String, u64> = HashMap::new();
    for r in results {
        ev.evaluations += r.schedules;
        ev.distinct.extend(r.fingerprints);
        for (k, v) in r.probes {
            ev.probe(k, v);
        }
        for (k, v) in r.strategies {
            *strategies.entry(k).or_insert(0) += v;
        }
        sim_ns += r.sim_ns;
        prefix += r.prefix_only;
        lenient.0 += r.lenient.0;
        lenient.1 += r.lenient.1;
        if let Some(w) = r.skipped {
            skipped += 1;
            *skip_reasons.entry(w).or_insert(0) += 1;
        }
        if let Some(w) = r.not_compiled {
            not_compiled += 1;
            *nc_reasons.entry(w.chars().take(100).collect()).or_insert(0) += 1;
        }
        if let Some(s) = r.sample {
            ev.sample(s);
        }
        if let Some(v) = r.violation {
            violations.push(v);
        }
    }
    ev.fault("process:compiled-after-the-neutralised-twin-on-the-same-thread", WARM_COMPILES.load(std::sync::atomic::Ordering::Relaxed));
    ev.extra.insert("programs".into(), json!(progs.len()));
    ev.extra.insert("schedules_per_program".into(), json!(nsched));
    ev.extra.insert("programs_skipped_unsupported".into(), json!(skipped));
    ev.extra.insert("skip_reasons".into(), json!(skip_reasons));
    ev.extra.insert("programs_not_compiled".into(), json!(not_compiled));
    ev.extra.insert("not_compiled_reasons".into(), json!(nc_reasons));
    ev.extra.insert("runs_checked_as_prefix_only_step_budget".into(), json!(prefix));
    ev.extra.insert("simulated_seconds".into(), json!(sim_ns as f64 / 1e9));
    ev.extra.insert("lenient_reads".into(), json!({"compiled_only_skipped": lenient.0, "source_only_performed": lenient.1}));
    ev.extra.insert("schedules_by_strategy".into(), json!(strategies));
    for (k, v) in [("schedule:interleaving", ev.evaluations)] {
        ev.fault(k, v);
    }
    let nviol = violations.len();
    let outcome = harness::conclude(PROP, violations, opts, &harness::verify_in_fresh_process);
    ev.write(opts, outcome.unlisted as usize, nviol);
    println!(
        "C09 {}: {} programs ({} skipped, {} not compiled) x {} schedules = {} runs, {} distinct interleavings, {} violations ({} known), {:.1}s",
        opts.tier.name(),
        progs.len(),
        skipped,
        not_compiled,
        nsched,
        ev.evaluations,
        ev.distinct.len(),
        outcome.unlisted,
        outcome.known,
        ev.start.elapsed().as_secs_f64()
    );
    outcome.exit_code
}

pub fn replay(file: &Value) -> bool {
    let r = &file["replay"];
    let files = crate::props::c13::files_from_json(&r["files"]);
    let sb = Sandbox::new("c09replay").expect("sandbox");
    let c = match compile_files(&sb, &files, r["entropy"].as_u64().unwrap_or(1)) {
        Ok(c) => c,
        Err(e) => {
            println!("replay: program does not compile: {e}");
            return false;
        }
    };
    let strategy: Strategy = serde_json::from_value(r["strategy"].clone()).unwrap_or(Strategy::Random);
    let schedule: Vec<usize> = serde_json::from_value(r["schedule"].clone()).unwrap_or_default();
    STRICT_LIVENESS.with(|c| c.set(r["class"] == "compiled-spins-forever"));
    let ch = check_schedule(&c.gp, &c.rp, strategy, 0, schedule, gort::DEFAULT_STEPS);
    match ch.verdict {
        Verdict::Violates(m) => {
            println!("replayed: {} — {}", m.class, m.detail);
            m.class == r["class"].as_str().unwrap_or("")
        }
        other => {
            println!("replay verdict: {other:?}");
            false
        }
    }
}
