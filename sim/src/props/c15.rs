//! C15 — link never combines packages built against different interfaces.
//!
//! A workspace (sources + artifact store + link output) driven by a generated history of
//! operations, each a simulated process — edits (body-only / interface-changing / revert),
//! check, build, link over any subset and order of cores — interleaved with storage faults
//! (crash inside a build, power loss, byte corruption, single-field JSON corruption,
//! foreign-version artifacts, stale restores, swaps, a shadowing interface directory), checked
//! against a small reference model of the build graph.

use crate::faults::{self, ByteFault};
use crate::genp::project::{Edit, GenCfg, Project, generate};
use crate::gort::co::{Stop, Strategy};
use crate::gort::{self, goi};
use crate::harness::{self, Evidence, Opts, Tier, Violation};
use crate::ops::{self, s};
use crate::prng::{Prng, mix, purpose};
use crate::props::c14::link_ast;
use crate::world::{Exit, Files, ProcSpec, Sandbox, sha};
use serde_json::{Value, json};
use std::collections::{BTreeMap, BTreeSet, HashMap};
use std::sync::Arc;

pub const PROP: &str = "C15";

#[derive(Clone, Debug, PartialEq, serde::Serialize, serde::Deserialize)]
pub enum Op {
    Edit { edit: Edit, uniq: u32 },
    Revert,
    Check { p: usize, entropy: u64 },
    Build { p: usize, entropy: u64, crash_at: Option<u32>, use_alt_dir_first: bool },
    /// offered cores: (dir index, package index); order as given
    Link { cores: Vec<(u8, usize)>, entropy: u64 },
    Corrupt { dir: u8, p: usize, core: bool, fault: ByteFault },
    FieldCorrupt { dir: u8, p: usize, core: bool, pick: u64 },
    ForeignVersion { dir: u8, p: usize, core: bool, pick: u64 },
    StaleRestore { p: usize, core: bool, pick: u64 },
    Swap { a: usize, b: usize, core: bool },
    /// an older generation of p's interface appears in the directory searched first
    ShadowDir { p: usize, pick: u64 },
    PowerLoss { pick: u64 },
    /// the top-level dependency pins of p's core are rewritten to the interface hashes the
    /// dependencies' files in the store carry *now* (or dropped): the most adversarial
    /// single-field alteration, it makes a stale core look fresh
    Repin { p: usize, drop: bool },
    /// a copy of one generation of p's core appears in the store under another package name
    /// (top-level `package` field rewritten, optionally the embedded interface's too) and is
    /// offered to every later link in addition to the regular cores
    Relabel { p: usize, pick: u64 },
    /// a build during which one system call fails (kind 0: the nth open with EIO, 1: the nth
    /// open with EACCES, 2: the nth read with EIO): it may fail; if it reports success it must
    /// have written what the fault-free build writes
    BuildUnderIoFault { p: usize, entropy: u64, kind: u8, nth: u32, use_alt_dir_first: bool },
}

const DIRS: [&str; 2] = ["store", "store0"];

#[derive(Clone, Debug)]
struct ArtInfo {
    pkg: String,
    core: bool,
    iface_id: String,
    deps: BTreeMap<String, String>,
    snapshot: usize,
}

#[derive(Clone, Debug, serde::Serialize)]
pub struct Finding {
    pub class: String,
    pub key: Value,
    pub what: String,
    pub at_op: usize,
}

pub struct Stats {
    pub procs: u64,
    pub ops: u64,
    pub fired: BTreeMap<String, u64>,
    pub probes: BTreeMap<&'static str, u64>,
    pub log: Vec<String>,
    pub anomalies: Vec<String>,
}

struct World<'a> {
    sb: &'a Sandbox,
    proj: Project,
    undo: Vec<Project>,
    registry: HashMap<String, ArtInfo>,
    /// (package, iface id) -> interface_hash as written by the compiler
    hashes: BTreeMap<(String, String), String>,
    snapshots: Vec<Project>,
    /// why some bytes are not a genuine artifact (set by fault operations), keyed by content hash
    reasons: BTreeMap<String, String>,
    generations: BTreeMap<String, Vec<Vec<u8>>>,
    last_written: Vec<(String, Option<Vec<u8>>)>,
    findings: Vec<Finding>,
    st: Stats,
    op_index: usize,
    /// relabelled cores (paths) offered to every link in addition to the requested ones
    extra_cores: Vec<(String, u32)>,
    /// set by `BuildUnderIoFault` for the build that follows
    pending_io_fault: Option<(u8, u32)>,
    /// one history in three is executed by a long-lived server process: every check / build /
    /// link of the history runs on one thread (the fault-free shadow executions stay fresh
    /// processes), so state the compiler keeps between operations meets an edited world
    server: Option<Arc<crate::world::Server>>,
}

fn art_path(dir: u8, name: &str, core: bool) -> String {
    format!("{}/{}.{}", DIRS[dir as usize % DIRS.len()], name, if core { "core" } else { "interface" })
}

impl<'a> World<'a> {
    fn name(&self, p: usize) -> String {
        self.proj.pkgs[p % self.proj.pkgs.len()].name.clone()
    }

    fn write_sources(&self, pkgs: &[usize]) {
        for &pi in pkgs {
            for (f, b) in self.proj.render_pkg(pi) {
                self.sb.write(&format!("src/{f}"), &b);
            }
        }
    }

    fn finding(&mut self, class: &str, key: Value, what: String) {
        let at_op = self.op_index;
        self.findings.push(Finding { class: class.to_string(), key, what, at_op });
    }

    fn note_generation(&mut self, path: &str) {
        if let Some(b) = self.sb.read(path) {
            let g = self.generations.entry(path.to_string()).or_default();
            if g.last() != Some(&b) {
                g.push(b);
            }
        }
    }

    /// The interface file of `dep` the compiler will read given the directory order.
    fn visible_interface(&self, dep: &str, dirs: &[u8]) -> Option<(String, Vec<u8>)> {
        for d in dirs {
            let path = art_path(*d, dep, false);
            if self.sb.exists(&path) {
                return self.sb.read(&path).map(|b| (path, b));
            }
        }
        None
    }

    fn own_text(&self, p: usize) -> String {
        self.proj.interface_text(p)
    }

    /// Identity of p's interface if it and all its dependencies were built from the current sources.
    fn current_id(&self, p: usize) -> String {
        let mut deps = String::new();
        let mut imps: Vec<usize> = self.proj.pkgs[p].imports.clone();
        imps.sort_by_key(|i| self.proj.pkgs[*i].name.clone());
        for d in imps {
            deps.push_str(&format!("{}={};", self.proj.pkgs[d].name, self.current_id(d)));
        }
        sha(format!("{}|{}", self.own_text(p), deps).as_bytes())
    }

    fn genuine(&self, bytes: &[u8]) -> Option<&ArtInfo> {
        self.registry.get(&sha(bytes))
    }

    fn check_or_build(&mut self, p: usize, entropy: u64, build: bool, crash_at: Option<u32>, alt_first: bool) {
        let p = p % self.proj.pkgs.len();
        let name = self.name(p);
        let dirs: Vec<u8> = if alt_first { vec![1, 0] } else { vec![0, 1] };
        // what will be read
        let mut dep_ids: BTreeMap<String, String> = BTreeMap::new();
        let mut bad: Vec<(String, String)> = Vec::new(); // (path, reason)
        let mut missing = false;
        let mut all_current = true;
        let imports = self.proj.pkgs[p].imports.clone();
        for d in imports {
            let dn = self.proj.pkgs[d].name.clone();
            match self.visible_interface(&dn, &dirs) {
                None => missing = true,
                Some((path, bytes)) => match self.genuine(&bytes) {
                    Some(info) if !info.core && info.pkg == dn => {
                        if info.iface_id != self.current_id(d) {
                            all_current = false;
                        }
                        dep_ids.insert(dn.clone(), info.iface_id.clone());
                    }
                    Some(info) => {
                        bad.push((path, format!("swapped:{}{}", info.pkg, if info.core { ".core" } else { ".interface" })));
                    }
                    None => {
                        let reason = self.reasons.get(&sha(&bytes)).cloned().unwrap_or_else(|| "unknown-bytes".to_string());
                        bad.push((path, reason));
                    }
                },
            }
        }
        let files: Vec<String> = self.proj.pkg_files(p).iter().map(|f| self.sb.path(&format!("src/{f}"))).collect();
        let cmd = if build { "build" } else { "check" };
        let mk_args = |out: &str, order: &mut Prng| -> Vec<String> {
            let mut a = vec![s("goml"), s(cmd), s("--package"), name.clone(), s("--input")];
            let mut fs = files.clone();
            order.shuffle(&mut fs);
            a.extend(fs);
            for d in &dirs {
                a.push(s("--interface-path"));
                a.push(self.sb.path(DIRS[*d as usize]));
            }
            a.push(s("--output"));
            a.push(self.sb.path(&format!("{out}/{name}")));
            a
        };
        // shadow execution: fault-free, learns the artifacts this operation would write
        let spec = ProcSpec { entropy, readdir: entropy ^ 0x5555, ..Default::default() };
        let mut order = Prng::new(entropy);
        self.sb.remove("shadow");
        let shadow = ops::goml(self.sb, &spec, mk_args("shadow", &mut order));
        self.st.procs += 1;
        let shadow_ok = shadow.exit == Exit::Ok;
        if let Exit::Panicked(m) = &shadow.exit {
            self.st.anomalies.push(format!("{cmd} {name} panicked: {m}"));
        }
        let own = self.own_text(p);
        let mut idsrc = String::new();
        for (k, v) in &dep_ids {
            idsrc.push_str(&format!("{k}={v};"));
        }
        let iface_id = sha(format!("{own}|{idsrc}").as_bytes());
        if shadow_ok {
            // S2: nothing that is not a genuine interface of the right package may be accepted
            for (path, reason) in &bad {
                let class = if reason.starts_with("foreign-version") { "foreign-version-accepted" } else { "corrupt-artifact-accepted" };
                self.finding(
                    class,
                    json!({"class": class, "by": cmd, "artifact": "interface", "reason": reason_key(reason)}),
                    format!("C15: `{cmd}` of {name} accepted {} which is not a genuine interface ({reason})", path),
                );
            }
            if missing {
                self.finding(
                    "missing-interface-accepted",
                    json!({"class": "missing-interface-accepted", "by": cmd}),
                    format!("C15: `{cmd}` of {name} succeeded although an imported package has no interface file"),
                );
            }
            self.snapshots.push(self.proj.clone());
            let snap = self.snapshots.len() - 1;
            if bad.is_empty() && !missing {
                if let Some(b) = self.sb.read(&format!("shadow/{name}.interface")) {
                    // S3: the hash is a faithful function of the interface identity
                    if let Ok(v) = serde_json::from_slice::<Value>(&b) {
                        if let Some(h) = v["interface_hash"].as_str() {
                            self.check_hash(&name, &iface_id, h);
                        }
                    }
                    self.registry.insert(sha(&b), ArtInfo { pkg: name.clone(), core: false, iface_id: iface_id.clone(), deps: dep_ids.clone(), snapshot: snap });
                }
                if build {
                    if let Some(b) = self.sb.read(&format!("shadow/{name}.core")) {
                        self.registry.insert(sha(&b), ArtInfo { pkg: name.clone(), core: true, iface_id: iface_id.clone(), deps: dep_ids.clone(), snapshot: snap });
                    }
                }
            }
        } else if bad.is_empty() && !missing && all_current && !matches!(shadow.exit, Exit::Panicked(_)) {
            // L1: sources are well-typed by construction and every dependency interface is the
            // current one: the build must succeed
            let msg = match &shadow.exit {
                Exit::Err(m) => self.sb.normalise(m).chars().take(300).collect::<String>(),
                o => o.class().to_string(),
            };
            self.finding(
                "spurious-build-failure",
                json!({"class": "spurious-build-failure", "by": cmd}),
                format!("C15: `{cmd}` of {name} fails although all dependency interfaces are current: {msg}"),
            );
        }
        if !bad.is_empty() && !shadow_ok {
            *self.st.probes.entry("non_genuine_interface_rejected").or_insert(0) += 1;
        }
        if !all_current && bad.is_empty() {
            *self.st.probes.entry("build_against_stale_interface").or_insert(0) += 1;
        }
        // the real operation (possibly killed at syscall k)
        // one `check` in three writes its interface into the store itself (`check --output
        // store/P`): the store then holds P's new interface next to P's old core, which later
        // builds and links have to cope with
        let check_into_store = !build && entropy % 3 == 0;
        if check_into_store {
            *self.st.probes.entry("check_wrote_its_interface_into_the_store").or_insert(0) += 1;
        }
        let outdir = if build || check_into_store { "store" } else { "chk" };
        let before: Vec<(String, Option<Vec<u8>>)> = [art_path(0, &name, false), art_path(0, &name, true)]
            .iter()
            .map(|pth| (pth.clone(), self.sb.read(pth)))
            .collect();
        let mut spec2 = spec.clone();
        if let Some(k) = crash_at {
            spec2.crash_at = Some(k % (shadow.syscalls.max(1)));
        }
        let io_fault = self.pending_io_fault.take();
        if let Some((kind, nth)) = io_fault {
            use crate::shim::{Action, Call, FaultRule};
            let opens = shadow.log.iter().filter(|e| e.call == "open").count().max(1) as u32;
            let reads = shadow.log.iter().filter(|e| e.call == "read").count().max(1) as u32;
            spec2.plan = vec![match kind % 3 {
                0 => FaultRule { call: Call::Open, nth: nth % opens, action: Action::Errno(libc::EIO) },
                1 => FaultRule { call: Call::Open, nth: nth % opens, action: Action::Errno(libc::EACCES) },
                _ => FaultRule { call: Call::Read, nth: nth % reads, action: Action::Errno(libc::EIO) },
            }];
        }
        let mut order2 = Prng::new(entropy);
        if self.server.is_some() {
            *self.st.probes.entry("operations_executed_by_a_long_lived_server_process").or_insert(0) += 1;
        }
        let real = ops::goml_on(self.server.as_deref(), self.sb, &spec2, mk_args(outdir, &mut order2));
        self.st.procs += 1;
        for f in &real.fired {
            *self.st.fired.entry(f.clone()).or_insert(0) += 1;
        }
        if crash_at.is_some() && real.exit == Exit::Killed {
            for (pth, prev) in &before {
                if let Some(b) = self.sb.read(pth) {
                    if prev.as_ref() != Some(&b) && self.genuine(&b).is_none() {
                        self.reasons.insert(sha(&b), "torn-by-crash".to_string());
                        *self.st.probes.entry("crash_left_torn_artifact").or_insert(0) += 1;
                    }
                }
            }
        } else if crash_at.is_none() {
            if io_fault.is_some() {
                *self.st.probes.entry(if real.exit == Exit::Ok { "build_under_io_fault_succeeded" } else { "build_under_io_fault_failed" }).or_insert(0) += 1;
            }
            if (real.exit == Exit::Ok) != shadow_ok && io_fault.is_none() {
                self.st.anomalies.push(format!("{cmd} {name}: shadow and real run disagree ({:?} vs {:?})", shadow.exit.class(), real.exit.class()));
            }
            // a successful operation leaves exactly its artifacts in the store: the same bytes
            // the same operation writes into an empty directory (nothing kept from an earlier
            // generation, nothing skipped)
            if real.exit == Exit::Ok && shadow_ok {
                let mut exts = vec!["interface"];
                if build {
                    exts.push("core");
                }
                for ext in exts {
                    let fresh = self.sb.read(&format!("shadow/{name}.{ext}"));
                    let stored = self.sb.read(&format!("{outdir}/{name}.{ext}"));
                    if fresh.is_some() && fresh != stored {
                        self.finding(
                            "successful-build-left-other-bytes",
                            json!({"class": "successful-build-left-other-bytes", "by": cmd, "artifact": ext}),
                            format!("C15: `{cmd}` of {name} reported success but {outdir}/{name}.{ext} does not hold what this operation writes into an empty directory (a file of an earlier generation was kept or the write was skipped)"),
                        );
                    } else {
                        *self.st.probes.entry("successful_build_store_compared_with_fresh_output").or_insert(0) += 1;
                    }
                }
            }
        }
        if build || check_into_store {
            self.last_written = if build { before } else { before.into_iter().take(1).collect() };
            for pth in [art_path(0, &name, false), art_path(0, &name, true)] {
                self.note_generation(&pth);
            }
        }
        self.st.log.push(format!(
            "{} {}{}{} -> {}",
            cmd,
            name,
            if alt_first { " [store0 first]" } else { "" },
            crash_at.map(|k| format!(" [crash at syscall {}]", k % shadow.syscalls.max(1))).unwrap_or_default(),
            real.exit.class()
        ));
    }

    fn check_hash(&mut self, name: &str, iface_id: &str, hash: &str) {
        // same identity -> same hash
        if let Some(h) = self.hashes.get(&(name.to_string(), iface_id.to_string())) {
            if h != hash {
                self.finding(
                    "hash-not-a-function-of-interface",
                    json!({"class": "hash-not-a-function-of-interface"}),
                    format!("C15: package {name}: two builds of sources with the same interface (body-only difference) got different interface hashes"),
                );
            }
        }
        // different identity -> different hash
        let clash = self.hashes.iter().any(|((n, id), h)| n == name && id != iface_id && h == hash);
        if clash {
            self.finding(
                "interface-change-not-hashed",
                json!({"class": "interface-change-not-hashed"}),
                format!("C15: package {name}: an interface-changing edit (or a change of a dependency's interface) left the interface hash unchanged"),
            );
        }
        self.hashes.insert((name.to_string(), iface_id.to_string()), hash.to_string());
    }

    fn link(&mut self, cores: &[(u8, usize)], entropy: u64) {
        let mut paths = Vec::new();
        for (d, p) in cores {
            paths.push(art_path(*d, &self.name(*p), true));
        }
        let mut existing: Vec<String> = paths.iter().filter(|p| self.sb.exists(p)).cloned().collect();
        if existing.is_empty() {
            return;
        }
        // (each stray core is offered to the next two links, then it is gone)
        for (x, left) in self.extra_cores.iter_mut() {
            if *left > 0 && self.sb.exists(x) && !existing.contains(x) {
                existing.push(x.clone());
                *left -= 1;
            }
        }
        // model view of what is offered
        let mut infos: Vec<Option<ArtInfo>> = Vec::new();
        let mut bad: Vec<(String, String)> = Vec::new();
        for pth in &existing {
            let b = self.sb.read(pth).unwrap_or_default();
            match self.genuine(&b) {
                Some(i) if i.core => infos.push(Some(i.clone())),
                Some(i) => {
                    bad.push((pth.clone(), format!("swapped:{}.interface", i.pkg)));
                    infos.push(None);
                }
                None => {
                    bad.push((pth.clone(), self.reasons.get(&sha(&b)).cloned().unwrap_or_else(|| "unknown-bytes".into())));
                    infos.push(None);
                }
            }
        }
        let good: Vec<&ArtInfo> = infos.iter().flatten().collect();
        let mut names = BTreeSet::new();
        let mut dup = false;
        for i in &good {
            if !names.insert(i.pkg.clone()) {
                dup = true;
            }
        }
        let has_main = names.contains("Main");
        let mut inconsistent: Option<String> = None;
        for c in &good {
            for (d, want) in &c.deps {
                match good.iter().find(|x| x.pkg == *d) {
                    None => inconsistent = Some(format!("{} depends on {} which is not offered", c.pkg, d)),
                    Some(dc) => {
                        if dc.iface_id != *want {
                            inconsistent = Some(format!("{} was built against another interface of {} than the offered core exports", c.pkg, d));
                        }
                    }
                }
            }
        }
        let consistent = bad.is_empty() && !dup && has_main && inconsistent.is_none();
        // the output of an earlier link stays where it is: a link that succeeds must replace it
        let had_output = self.sb.exists("linked/main.go");
        let spec = ProcSpec { entropy, readdir: entropy, ..Default::default() };
        let mut order = Prng::new(entropy);
        let res = ops::goml_on(self.server.as_deref(), self.sb, &spec, ops::link_args(self.sb, &existing, "linked/main.go", &mut order));
        self.st.procs += 1;
        if res.exit == Exit::Ok && had_output {
            self.sb.remove("linkfresh");
            let mut order = Prng::new(entropy);
            let fresh = ops::goml(self.sb, &spec, ops::link_args(self.sb, &existing, "linkfresh/main.go", &mut order));
            self.st.procs += 1;
            if fresh.exit == Exit::Ok {
                if self.sb.read("linked/main.go") != self.sb.read("linkfresh/main.go") {
                    self.finding(
                        "successful-link-left-other-bytes",
                        json!({"class": "successful-link-left-other-bytes"}),
                        "C15: `link` reported success but the output file does not hold what the same link writes to a fresh path (the program of an earlier link was kept)".to_string(),
                    );
                } else {
                    *self.st.probes.entry("relink_over_existing_output_compared_with_fresh_output").or_insert(0) += 1;
                }
            }
        }
        if let Exit::Panicked(m) = &res.exit {
            self.st.anomalies.push(format!("link panicked: {m}"));
        }
        let ok = res.exit == Exit::Ok;
        let why = match &res.exit {
            Exit::Err(m) => format!(": {}", self.sb.normalise(m).chars().take(160).collect::<String>()),
            _ => String::new(),
        };
        self.st.log.push(format!("link {:?} -> {}{}{}", existing, res.exit.class(), if consistent { " (model: consistent)" } else { " (model: must reject)" }, why));
        if ok {
            for (pth, reason) in &bad {
                let class = if reason.starts_with("foreign-version") { "foreign-version-accepted" } else { "corrupt-artifact-accepted" };
                self.finding(
                    class,
                    json!({"class": class, "by": "link", "artifact": "core", "reason": reason_key(reason)}),
                    format!("C15: `link` accepted {pth} which is not a genuine core file ({reason})"),
                );
            }
            if bad.is_empty() {
                if dup || !has_main {
                    self.finding("unsafe-link", json!({"class": "unsafe-link", "how": "duplicate-or-no-main"}), "C15: link succeeded on a core set with duplicates or without Main".to_string());
                } else if let Some(why) = &inconsistent {
                    self.finding(
                        "unsafe-link",
                        json!({"class": "unsafe-link", "how": "interface-mismatch"}),
                        format!("C15: link succeeded although {why}"),
                    );
                }
            }
            if consistent {
                *self.st.probes.entry("consistent_link_succeeded").or_insert(0) += 1;
                self.behaviour(&existing, &good.iter().map(|g| (*g).clone()).collect::<Vec<_>>(), entropy);
            }
        } else {
            if !consistent {
                *self.st.probes.entry("inconsistent_link_rejected").or_insert(0) += 1;
                if inconsistent.is_some() && bad.is_empty() {
                    *self.st.probes.entry("stale_dependent_rejected_by_hash").or_insert(0) += 1;
                }
            }
            if consistent && !matches!(res.exit, Exit::Panicked(_)) {
                let msg = match &res.exit {
                    Exit::Err(m) => self.sb.normalise(m).chars().take(300).collect::<String>(),
                    o => o.class().to_string(),
                };
                self.finding(
                    "spurious-link-failure",
                    json!({"class": "spurious-link-failure"}),
                    format!("C15: link rejects a consistent set of genuine cores: {msg}"),
                );
            }
        }
    }

    /// The linked program must print what the model predicts for exactly the offered cores.
    fn behaviour(&mut self, paths: &[String], infos: &[ArtInfo], entropy: u64) {
        // composite project: every package as of the snapshot its core was built from
        let mut comp = self.proj.clone();
        for i in infos {
            let snap = &self.snapshots[i.snapshot];
            if let Some(pi) = snap.pkgs.iter().position(|p| p.name == i.pkg) {
                if pi < comp.pkgs.len() {
                    comp.pkgs[pi] = snap.pkgs[pi].clone();
                    if pi == 0 {
                        comp.main_prints = snap.main_prints.clone();
                        comp.main_print_tys = snap.main_print_tys.clone();
                    }
                }
            }
        }
        // The composite is only meaningful if every offered package's source snapshot sees the
        // other offered packages exactly as their own snapshots define them. (Sources edited
        // together with a dependency — e.g. literals rewritten for swapped fields — may still
        // have been built against the dependency's *old* interface; the generator's positional
        // expression model cannot evaluate such a mix, so no prediction is made for it.)
        for i in infos {
            let si = &self.snapshots[i.snapshot];
            for j in infos {
                let sj = &self.snapshots[j.snapshot];
                if let (Some(pj_in_i), Some(pj_in_j)) = (si.pkgs.iter().position(|p| p.name == j.pkg), sj.pkgs.iter().position(|p| p.name == j.pkg)) {
                    if si.interface_text(pj_in_i) != sj.interface_text(pj_in_j) {
                        *self.st.probes.entry("prediction_skipped_mixed_source_generations").or_insert(0) += 1;
                        return;
                    }
                }
            }
        }
        // packages not offered are not part of the program; prediction only uses offered ones
        let Some(pred) = comp.predict_stdout() else { return };
        let Ok((go, _)) = link_ast(self.sb, paths, entropy) else { return };
        self.st.procs += 1;
        let gp = Arc::new(goi::ProgData::new(go));
        let out = gort::run_go(&gp, Strategy::RoundRobin, 1, vec![], 200_000);
        if matches!(out.stop, Stop::Unsupported(_)) {
            return;
        }
        if matches!(out.stop, Stop::Invalid(_)) {
            // ill-typed Go is the code generator's fault (C02, not claimed), not the linker's
            *self.st.probes.entry("linked_program_not_valid_go_skipped").or_insert(0) += 1;
            return;
        }
        *self.st.probes.entry("linked_program_executed").or_insert(0) += 1;
        if out.stdout != pred || out.stop != Stop::MainReturned {
            self.finding(
                "linked-program-wrong",
                json!({"class": "linked-program-wrong"}),
                format!("C15: the linked program prints {:?} ({:?}) but the cores it was linked from denote {:?}", out.stdout, out.stop, pred),
            );
        }
    }

    /// A fault rewrote `path` from `old` to `new`. If both decode to the same artifact value the
    /// file is still that artifact (inert corruption); otherwise remember why it is not genuine.
    fn note_corruption(&mut self, path: &str, old: &[u8], new: &[u8], core: bool, reason: String) {
        if let (Some(a), Some(b)) = (canonical(old, core), canonical(new, core)) {
            if a == b {
                if let Some(info) = self.genuine(old).cloned() {
                    self.registry.insert(sha(new), info);
                    *self.st.probes.entry("inert_corruption_decodes_to_same_artifact").or_insert(0) += 1;
                    return;
                }
            }
        }
        let _ = path;
        self.reasons.insert(sha(new), reason);
    }

    fn storage_targets(&self, dir: u8, p: usize, core: bool) -> Option<(String, Vec<u8>)> {
        let path = art_path(dir, &self.name(p), core);
        self.sb.read(&path).map(|b| (path, b))
    }

    fn apply(&mut self, op: &Op) {
        match op {
            Op::Edit { edit, uniq } => {
                if !edit_applicable(&self.proj, edit) {
                    return;
                }
                self.undo.push(self.proj.clone());
                let changed = self.proj.apply_edit(edit, *uniq);
                self.write_sources(&changed);
                self.st.log.push(format!("edit {:?} (sources of {:?} change)", edit, changed.iter().map(|i| self.proj.pkgs[*i].name.clone()).collect::<Vec<_>>()));
                *self.st.probes.entry(if edit.is_body_only() { "body_only_edits" } else { "interface_edits" }).or_insert(0) += 1;
            }
            Op::Revert => {
                if let Some(prev) = self.undo.pop() {
                    self.proj = prev;
                    let all: Vec<usize> = (0..self.proj.pkgs.len()).collect();
                    self.write_sources(&all);
                    self.st.log.push("revert last edit".to_string());
                    *self.st.probes.entry("reverts").or_insert(0) += 1;
                }
            }
            Op::Check { p, entropy } => self.check_or_build(*p, *entropy, false, None, false),
            Op::Build { p, entropy, crash_at, use_alt_dir_first } => self.check_or_build(*p, *entropy, true, *crash_at, *use_alt_dir_first),
            Op::Link { cores, entropy } => self.link(cores, *entropy),
            Op::BuildUnderIoFault { p, entropy, kind, nth, use_alt_dir_first } => {
                self.pending_io_fault = Some((*kind, *nth));
                self.check_or_build(*p, *entropy, true, None, *use_alt_dir_first);
                self.pending_io_fault = None;
            }
            Op::Corrupt { dir, p, core, fault } => {
                if let Some((path, b)) = self.storage_targets(*dir, *p, *core) {
                    let nb = faults::apply_byte_fault(&b, fault);
                    if nb != b {
                        self.sb.write(&path, &nb);
                        let kind = match fault {
                            ByteFault::BitFlip { .. } => "bitflip",
                            ByteFault::Truncate { .. } => "truncate",
                            ByteFault::TrailingGarbage => "trailing-garbage",
                            ByteFault::Empty => "empty",
                        };
                        // a flipped bit that leaves the file well-formed JSON is a change of one
                        // field: name it, so that the finding is identified by *where* it is
                        let located = match (serde_json::from_slice::<Value>(&b), serde_json::from_slice::<Value>(&nb)) {
                            (Ok(x), Ok(y)) => faults::first_difference(&x, &y, String::new()),
                            _ => None,
                        };
                        let reason = match located {
                            Some(ptr) => format!("field:{ptr}:{kind}"),
                            None => format!("bytes:{kind}"),
                        };
                        self.note_corruption(&path, &b, &nb, *core, reason);
                        *self.st.fired.entry("storage:byte-corruption".into()).or_insert(0) += 1;
                        self.st.log.push(format!("corrupt {path} ({fault:?})"));
                    }
                }
            }
            Op::FieldCorrupt { dir, p, core, pick } => {
                if let Some((path, b)) = self.storage_targets(*dir, *p, *core) {
                    if self.genuine(&b).is_none() {
                        return;
                    }
                    if let Ok(doc) = serde_json::from_slice::<Value>(&b) {
                        let ptrs = faults::all_pointers(&doc);
                        if ptrs.is_empty() {
                            return;
                        }
                        let mut pr = Prng::new(*pick);
                        let exact = EXACT_POINTER.with(|c| c.get());
                        // one time in three: rewrite a hash-valued field (interface hash,
                        // dependency pin) to another hash that occurs somewhere in the store
                        if !exact && pr.chance(1, 3) {
                            let mut pool = Vec::new();
                            for (k, v) in self.sb.snapshot() {
                                if k.starts_with("store") {
                                    if let Ok(d) = serde_json::from_slice::<Value>(&v) {
                                        faults::hashes_in(&d, &mut pool);
                                    }
                                }
                            }
                            pool.sort();
                            pool.dedup();
                            if let Some((nd, ff)) = faults::replace_hash(&doc, &pool, &mut pr) {
                                let text = serde_json::to_string_pretty(&nd).unwrap();
                                self.sb.write(&path, text.as_bytes());
                                self.note_corruption(&path, &b, text.as_bytes(), *core, format!("field:{}:{}", ff.pointer, ff.mutation));
                                *self.st.fired.entry("storage:hash-field-rewritten".into()).or_insert(0) += 1;
                                self.st.log.push(format!("field-corrupt {path} at {} ({})", ff.pointer, ff.mutation));
                                return;
                            }
                        }
                        for _ in 0..8 {
                            let ptr = if exact { ptrs[(*pick as usize) % ptrs.len()].clone() } else { ptrs[pr.usize(ptrs.len())].clone() };
                            if let Some((nd, ff)) = faults::mutate_field(&doc, &ptr, &mut pr) {
                                let text = serde_json::to_string_pretty(&nd).unwrap();
                                self.sb.write(&path, text.as_bytes());
                                self.note_corruption(&path, &b, text.as_bytes(), *core, format!("field:{}:{}", ff.pointer, ff.mutation));
                                *self.st.fired.entry("storage:single-field-corruption".into()).or_insert(0) += 1;
                                self.st.log.push(format!("field-corrupt {path} at {} ({})", ff.pointer, ff.mutation));
                                break;
                            }
                        }
                    }
                }
            }
            Op::ForeignVersion { dir, p, core, pick } => {
                if let Some((path, b)) = self.storage_targets(*dir, *p, *core) {
                    if self.genuine(&b).is_none() {
                        return;
                    }
                    let mut pr = Prng::new(*pick);
                    let nb = if *core {
                        faults::foreign_version_core(&b, &mut pr).map(|(x, w)| (x, w.to_string()))
                    } else {
                        faults::foreign_version_interface(&b, &mut pr).map(|x| (x, "interface-version-fields".to_string()))
                    };
                    if let Some((nb, which)) = nb {
                        self.sb.write(&path, &nb);
                        self.reasons.insert(sha(&nb), format!("foreign-version:{which}"));
                        *self.st.fired.entry("storage:foreign-version".into()).or_insert(0) += 1;
                        self.st.log.push(format!("foreign-version {path} ({which})"));
                    }
                }
            }
            Op::StaleRestore { p, core, pick } => {
                let path = art_path(0, &self.name(*p), *core);
                if let Some(gens) = self.generations.get(&path) {
                    if gens.len() >= 2 {
                        let g = gens[(*pick as usize) % (gens.len() - 1)].clone();
                        self.sb.write(&path, &g);
                        *self.st.fired.entry("storage:stale-restore".into()).or_insert(0) += 1;
                        self.st.log.push(format!("stale-restore {path} (generation {} of {})", (*pick as usize) % (gens.len() - 1), gens.len()));
                    }
                }
            }
            Op::Swap { a, b, core } => {
                let pa = art_path(0, &self.name(*a), *core);
                let pb = art_path(0, &self.name(*b), *core);
                if pa != pb {
                    if let (Some(x), Some(y)) = (self.sb.read(&pa), self.sb.read(&pb)) {
                        self.sb.write(&pa, &y);
                        self.sb.write(&pb, &x);
                        *self.st.fired.entry("storage:swap".into()).or_insert(0) += 1;
                        self.st.log.push(format!("swap {pa} <-> {pb}"));
                    }
                }
            }
            Op::ShadowDir { p, pick } => {
                let name = self.name(*p);
                let path = art_path(0, &name, false);
                if let Some(gens) = self.generations.get(&path) {
                    if !gens.is_empty() {
                        let g = gens[(*pick as usize) % gens.len()].clone();
                        self.sb.write(&art_path(1, &name, false), &g);
                        *self.st.fired.entry("storage:shadowing-directory".into()).or_insert(0) += 1;
                        self.st.log.push(format!("shadow-dir: generation {} of {name}.interface appears in store0/", (*pick as usize) % gens.len()));
                    }
                }
            }
            Op::Repin { p, drop } => {
                if let Some((path, b)) = self.storage_targets(0, *p, true) {
                    if self.genuine(&b).is_none() {
                        return;
                    }
                    let Ok(mut doc) = serde_json::from_slice::<Value>(&b) else { return };
                    let Some(deps) = doc.get("deps").and_then(|d| d.as_object()).cloned() else { return };
                    let mut changed = false;
                    for (dep, _) in deps.iter() {
                        let cur = self
                            .sb
                            .read(&format!("store/{dep}.interface"))
                            .and_then(|ib| serde_json::from_slice::<Value>(&ib).ok())
                            .and_then(|v| v["interface_hash"].as_str().map(|x| x.to_string()));
                        if *drop {
                            if let Some(m) = doc["deps"].as_object_mut() {
                                m.remove(dep);
                                changed = true;
                            }
                        } else if let Some(h) = cur {
                            if doc["deps"][dep] != Value::String(h.clone()) {
                                doc["deps"][dep] = Value::String(h);
                                changed = true;
                            }
                        }
                    }
                    if changed {
                        let text = serde_json::to_string_pretty(&doc).unwrap();
                        self.sb.write(&path, text.as_bytes());
                        self.note_corruption(&path, &b, text.as_bytes(), true, format!("field:/deps:{}", if *drop { "pins-dropped" } else { "pins-rewritten-to-current" }));
                        *self.st.fired.entry("storage:dependency-pins-rewritten".into()).or_insert(0) += 1;
                        self.st.log.push(format!("repin {path} ({})", if *drop { "pins dropped" } else { "pins rewritten to current hashes" }));
                    }
                }
            }
            Op::Relabel { p, pick } => {
                let name = self.name(*p);
                let path = art_path(0, &name, true);
                let Some(gens) = self.generations.get(&path).cloned() else { return };
                if gens.is_empty() {
                    return;
                }
                let g = &gens[(*pick as usize) % gens.len()];
                if self.genuine(g).is_none() {
                    return;
                }
                let Ok(mut doc) = serde_json::from_slice::<Value>(g) else { return };
                let newname = format!("{name}Old");
                if doc.get("package").and_then(|x| x.as_str()) != Some(name.as_str()) {
                    return;
                }
                doc["package"] = Value::String(newname.clone());
                let both = (*pick >> 20) % 3 == 0;
                if both {
                    if let Some(i) = doc.get_mut("interface") {
                        i["package"] = Value::String(newname.clone());
                    }
                }
                let text = serde_json::to_string_pretty(&doc).unwrap();
                let np = art_path(0, &newname, true);
                self.sb.write(&np, text.as_bytes());
                self.reasons.insert(sha(text.as_bytes()), format!("field:/package:relabelled{}", if both { "-with-interface" } else { "" }));
                self.extra_cores.retain(|(x, _)| *x != np);
                self.extra_cores.push((np.clone(), 2));
                *self.st.fired.entry("storage:relabelled-core-offered-in-addition".into()).or_insert(0) += 1;
                self.st.log.push(format!("relabel: a generation of {path} appears as {np}"));
            }
            Op::PowerLoss { pick } => {
                let mut pr = Prng::new(*pick);
                let lw = self.last_written.clone();
                for (path, prev) in lw {
                    let Some(cur) = self.sb.read(&path) else { continue };
                    match pr.below(4) {
                        0 => {}
                        1 => match &prev {
                            Some(b) => {
                                self.sb.write(&path, b);
                            }
                            None => self.sb.remove(&path),
                        },
                        2 => {
                            self.sb.write(&path, b"");
                            self.reasons.insert(sha(b""), "lost-write:empty".into());
                        }
                        _ => {
                            let n = pr.usize(cur.len().max(1));
                            self.sb.write(&path, &cur[..n]);
                            if self.genuine(&cur[..n]).is_none() {
                                self.reasons.entry(sha(&cur[..n])).or_insert_with(|| "lost-write:prefix".into());
                            }
                        }
                    }
                    *self.st.fired.entry("storage:power-loss".into()).or_insert(0) += 1;
                }
                self.st.log.push("power loss (un-synced writes of the last build lost / torn)".to_string());
            }
        }
    }
}

/// Canonical re-serialisation of an artifact through goml's own typed (de)serialisers: two
/// files that decode to the same value are the same artifact (e.g. a duplicated entry of a
/// map serialised as a sequence, or a changed key order inside it, decodes to the same map).
fn canonical(bytes: &[u8], core: bool) -> Option<String> {
    if core {
        let u: compiler::artifact::CoreUnit = serde_json::from_slice(bytes).ok()?;
        serde_json::to_string(&u).ok()
    } else {
        let u: compiler::artifact::InterfaceUnit = serde_json::from_slice(bytes).ok()?;
        serde_json::to_string(&u).ok()
    }
}

fn reason_key(reason: &str) -> String {
    // stable part of a reason: for field corruptions the first path segment of the pointer
    if let Some(rest) = reason.strip_prefix("field:") {
        let ptr = rest.split(':').next().unwrap_or("");
        let seg: Vec<&str> = ptr.split('/').filter(|x| !x.is_empty()).collect();
        // for cores, distinguish /interface/... from /core_ir etc. by the first segment only
        return format!("field:/{}", seg.first().copied().unwrap_or(""));
    }
    reason.to_string()
}

fn edit_applicable(proj: &Project, e: &Edit) -> bool {
    let n = proj.pkgs.len();
    let p = e.pkg();
    if p >= n {
        return false;
    }
    let pk = &proj.pkgs[p];
    match e {
        Edit::BodyConst { f, .. } | Edit::BodyNoise { f, .. } | Edit::AddParam { f, .. } | Edit::RenameFn { f, .. } => *f < pk.fns.len(),
        Edit::ImplBodyConst { i, .. } => *i < pk.impls.len(),
        Edit::AddField { s, .. } | Edit::AddInherent { s, .. } | Edit::RenameField { s, .. } | Edit::AddDerive { s, .. } => {
            *s < pk.structs.len() && (!matches!(e, Edit::RenameField { .. }) || !pk.structs[*s].fields.is_empty())
        }
        Edit::AddVariant { e: en, .. } => *en < pk.enums.len(),
        Edit::SwapVariants { e: en, .. } => *en < pk.enums.len() && pk.enums[*en].variants.len() >= 2,
        Edit::SwapFields { s, .. } => *s < pk.structs.len() && pk.structs[*s].fields.len() >= 2,
        Edit::AddTraitMethod { t, .. } => *t < pk.traits.len(),
        _ => true,
    }
}

pub fn gen_history(p: &mut Prng, proj: &Project, len: usize, faults_on: &[bool; 8], crash: bool) -> Vec<Op> {
    let n = proj.pkgs.len();
    let mut ops = Vec::new();
    // start from a fully built store
    for pi in build_order(proj) {
        ops.push(Op::Build { p: pi, entropy: p.next_u64(), crash_at: None, use_alt_dir_first: false });
    }
    ops.push(Op::Link { cores: (0..n).map(|i| (0u8, i)).collect(), entropy: p.next_u64() });
    let mut scratch = proj.clone();
    let mut uniq = 100u32;
    for _ in 0..len {
        let r = p.below(100);
        let op = if r < 16 {
            match scratch.random_edit(p, true) {
                Some(e) => {
                    uniq += 1;
                    scratch.apply_edit(&e, uniq);
                    Op::Edit { edit: e, uniq }
                }
                None => continue,
            }
        } else if r < 30 {
            match scratch.random_edit(p, false) {
                Some(e) => {
                    uniq += 1;
                    scratch.apply_edit(&e, uniq);
                    Op::Edit { edit: e, uniq }
                }
                None => continue,
            }
        } else if r < 33 {
            Op::Revert
        } else if r < 40 {
            Op::Check { p: p.usize(n), entropy: p.next_u64() }
        } else if r < 64 && crash && p.chance(1, 7) {
            Op::BuildUnderIoFault { p: p.usize(n), entropy: p.next_u64(), kind: p.below(3) as u8, nth: p.below(24) as u32, use_alt_dir_first: faults_on[7] && p.chance(1, 2) }
        } else if r < 64 {
            Op::Build {
                p: p.usize(n),
                entropy: p.next_u64(),
                crash_at: if crash && p.chance(1, 5) { Some(p.below(64) as u32) } else { None },
                use_alt_dir_first: faults_on[7] && p.chance(1, 4),
            }
        } else if r < 80 {
            // mostly the full set from the main store; sometimes a subset, a duplicate, store0
            let mut cores: Vec<(u8, usize)> = (0..n).map(|i| (0u8, i)).collect();
            match p.below(8) {
                0 if n > 1 => {
                    cores.remove(p.usize(n));
                }
                1 => cores.push((0, p.usize(n))),
                _ => {}
            }
            p.shuffle(&mut cores);
            Op::Link { cores, entropy: p.next_u64() }
        } else {
            let which = p.usize(8);
            if !faults_on[which] {
                continue;
            }
            let dir = 0u8;
            let pk = p.usize(n);
            let core = p.chance(1, 2);
            match which {
                0 => Op::Corrupt { dir, p: pk, core, fault: faults::random_byte_fault(p) },
                1 => Op::FieldCorrupt { dir, p: pk, core, pick: p.next_u64() },
                2 => Op::ForeignVersion { dir, p: pk, core, pick: p.next_u64() },
                3 => Op::StaleRestore { p: pk, core, pick: p.next_u64() },
                4 => {
                    if p.chance(1, 2) {
                        Op::Swap { a: pk, b: p.usize(n), core }
                    } else {
                        Op::Relabel { p: pk, pick: p.next_u64() }
                    }
                }
                5 => Op::PowerLoss { pick: p.next_u64() },
                6 => {
                    if p.chance(1, 2) {
                        Op::Repin { p: pk, drop: p.chance(1, 3) }
                    } else {
                        Op::FieldCorrupt { dir, p: pk, core: true, pick: p.next_u64() }
                    }
                }
                _ => Op::ShadowDir { p: pk, pick: p.next_u64() },
            }
        };
        // a fault is most interesting right before something reads the file
        let is_fault = matches!(op, Op::Relabel { .. } | Op::Repin { .. } | Op::Corrupt { .. } | Op::FieldCorrupt { .. } | Op::ForeignVersion { .. } | Op::StaleRestore { .. } | Op::Swap { .. } | Op::PowerLoss { .. } | Op::ShadowDir { .. });
        ops.push(op);
        if is_fault && p.chance(2, 3) {
            if p.chance(1, 2) {
                ops.push(Op::Link { cores: (0..n).map(|i| (0u8, i)).collect(), entropy: p.next_u64() });
            } else {
                ops.push(Op::Build { p: p.usize(n), entropy: p.next_u64(), crash_at: None, use_alt_dir_first: faults_on[7] && p.chance(1, 3) });
            }
        }
    }
    ops
}

pub struct HistoryResult {
    pub findings: Vec<Finding>,
    pub stats: Stats,
}

/// Dependencies-first build order; among the ready packages the highest index goes first (for
/// generated projects, whose imports point to higher indices, this is simply n-1 .. 0).
pub fn build_order(proj: &Project) -> Vec<usize> {
    let n = proj.pkgs.len();
    let mut done: Vec<usize> = Vec::new();
    while done.len() < n {
        let next = (0..n).rev().find(|i| !done.contains(i) && proj.pkgs[*i].imports.iter().all(|d| done.contains(d)));
        match next {
            Some(i) => done.push(i),
            None => break,
        }
    }
    for i in (0..n).rev() {
        if !done.contains(&i) {
            done.push(i);
        }
    }
    done
}

/// Histories also run on projects with a *leftover* package: a library that imports one of the
/// project's libraries but that nothing imports (what remains in a source tree and an artifact
/// directory after Main stopped using a package). It is built and offered to `link` like every
/// other package; a stale core of it is as unlinkable as any other stale core.
pub fn project_for_history(seed: u64, idx: u64) -> (Project, [bool; 8], bool, usize) {
    let (mut proj, on, crash, len) = project_for(seed, idx);
    let mut p = Prng::derive(seed, idx, "c15-leftover");
    let n = proj.pkgs.len();
    if n >= 2 && p.chance(1, 3) {
        let j = 1 + p.usize(n - 1);
        let mut pk = crate::genp::project::Pkg::default();
        pk.name = "Zleft".to_string();
        pk.imports = vec![j];
        pk.nfiles = 1;
        pk.raw = "\nfn zleft_id(x: int32) -> int32 {\n    x + 1\n}\n".to_string();
        if !proj.pkgs.iter().any(|q| q.name == pk.name) {
            proj.pkgs.push(pk);
        }
    }
    (proj, on, crash, len)
}

pub fn project_for(seed: u64, idx: u64) -> (Project, [bool; 8], bool, usize) {
    let mut p = Prng::derive(seed, idx, "c15-project");
    let mut cfg = GenCfg::swarm(&mut p);
    cfg.max_pkgs = 2 + p.usize(4);
    cfg.max_files = 1 + p.usize(2);
    cfg.depth = 1 + p.below(2) as u32;
    let proj = generate(&mut p, &cfg);
    // swarm: which fault kinds are enabled in this history (run 0 mod 4 is fault-free)
    let fault_free = idx % 4 == 0;
    let mut on = [false; 8];
    if !fault_free {
        for slot in on.iter_mut() {
            *slot = p.chance(1, 2);
        }
        if !on.iter().any(|x| *x) {
            on[p.usize(8)] = true;
        }
    }
    let crash = !fault_free && p.chance(1, 2);
    let len = 5 + p.usize(36);
    (proj, on, crash, len)
}

fn new_world<'a>(sb: &'a Sandbox, proj: &Project) -> World<'a> {
    sb.clear();
    let w = World {
        sb,
        proj: proj.clone(),
        undo: Vec::new(),
        registry: HashMap::new(),
        hashes: BTreeMap::new(),
        snapshots: Vec::new(),
        reasons: BTreeMap::new(),
        generations: BTreeMap::new(),
        last_written: Vec::new(),
        findings: Vec::new(),
        st: Stats { procs: 0, ops: 0, fired: BTreeMap::new(), probes: BTreeMap::new(), log: Vec::new(), anomalies: Vec::new() },
        op_index: 0,
        extra_cores: Vec::new(),
        pending_io_fault: None,
        server: {
            // a function of the project alone, so shrinking the operation list keeps the mode
            let d = sha(serde_json::to_string(&crate::props::c13::files_json(&proj.render())).unwrap().as_bytes());
            if d.as_bytes()[0] % 3 == 0 { Some(crate::world::Server::new()) } else { None }
        },
    };
    let all: Vec<usize> = (0..w.proj.pkgs.len()).collect();
    w.write_sources(&all);
    sb.mkdir("store");
    sb.mkdir("store0");
    w
}

pub fn run_history(sb: &Sandbox, proj: &Project, ops: &[Op], final_phase: bool) -> HistoryResult {
    let mut w = new_world(sb, proj);
    for (i, op) in ops.iter().enumerate() {
        w.op_index = i;
        w.st.ops += 1;
        w.apply(op);
    }
    if final_phase {
        // bounded liveness: after the faults stop, a clean rebuild of everything links and the
        // program prints what the current sources denote
        w.op_index = ops.len();
        w.extra_cores.clear();
        let n = w.proj.pkgs.len();
        // first in place, over whatever the history left in the store (that is what a user
        // does: rebuild everything in dependency order, link); the shadowing directory goes
        sb.remove("store0");
        sb.mkdir("store0");
        for pi in build_order(&w.proj) {
            w.check_or_build(pi, mix(&[pi as u64, 78]), true, None, false);
        }
        let before = w.findings.len();
        let ok_before = *w.st.probes.get("consistent_link_succeeded").unwrap_or(&0);
        w.link(&(0..n).map(|i| (0u8, i)).collect::<Vec<_>>(), 4243);
        let ok_after = *w.st.probes.get("consistent_link_succeeded").unwrap_or(&0);
        if ok_after == ok_before && w.findings.len() == before {
            w.finding(
                "no-progress-after-faults",
                json!({"class": "no-progress-after-faults", "how": "in-place"}),
                "C15: after the faults stopped, rebuilding every package in dependency order over the existing store did not link".to_string(),
            );
        }
        // then from an empty store
        sb.remove("store");
        sb.remove("store0");
        sb.mkdir("store");
        sb.mkdir("store0");
        for pi in build_order(&w.proj) {
            w.check_or_build(pi, mix(&[pi as u64, 77]), true, None, false);
        }
        let before = w.findings.len();
        let ok_before = *w.st.probes.get("consistent_link_succeeded").unwrap_or(&0);
        w.link(&(0..n).map(|i| (0u8, i)).collect::<Vec<_>>(), 4242);
        let ok_after = *w.st.probes.get("consistent_link_succeeded").unwrap_or(&0);
        if ok_after == ok_before && w.findings.len() == before {
            w.finding(
                "no-progress-after-faults",
                json!({"class": "no-progress-after-faults"}),
                "C15: after the faults stopped, a clean rebuild of every package did not link".to_string(),
            );
        }
    }
    HistoryResult { findings: w.findings, stats: w.st }
}

fn shrink(sb: &Sandbox, proj: &Project, ops: &[Op], target: &Finding) -> Vec<Op> {
    let same = |fs: &[Finding]| fs.iter().any(|f| f.class == target.class && f.key == target.key);
    let mut cur: Vec<Op> = ops[..(target.at_op + 1).min(ops.len())].to_vec();
    if !same(&run_history(sb, proj, &cur, false).findings) {
        return ops.to_vec();
    }
    let mut i = cur.len();
    while i > 0 {
        i -= 1;
        let mut t = cur.clone();
        t.remove(i);
        if same(&run_history(sb, proj, &t, false).findings) {
            cur = t;
        }
    }
    cur
}

struct RunResult {
    violations: Vec<Violation>,
    stats: Stats,
    fingerprint: String,
    nontrivial: bool,
    sample: Option<Value>,
}

fn check_history(sb: &Sandbox, opts: &Opts, idx: usize) -> RunResult {
    let (proj, on, crash, len) = project_for_history(opts.seed, idx as u64);
    let mut p = Prng::derive(opts.seed, idx as u64, "c15-history");
    let ops = gen_history(&mut p, &proj, len, &on, crash);
    let res = run_history(sb, &proj, &ops, true);
    let mut violations = Vec::new();
    let mut seen = BTreeSet::new();
    for f in &res.findings {
        if !seen.insert(format!("{}{}", f.class, f.key)) {
            continue;
        }
        let small = if f.at_op < ops.len() && harness::may_shrink() { shrink(sb, &proj, &ops, f) } else { ops.clone() };
        let replayed = run_history(sb, &proj, &small, f.at_op >= ops.len());
        violations.push(Violation {
            property: PROP.into(),
            class: f.class.clone(),
            key: f.key.clone(),
            what: f.what.clone(),
            replay: json!({
                "kind": "c15",
                "project_seed": opts.seed,
                "project_index": idx,
                "leftover": true,
                "ops": small,
                "final_phase": f.at_op >= ops.len(),
                "class": f.class,
                "key": f.key,
                "history_log": replayed.stats.log,
                "sources": crate::props::c13::files_json(&proj.render()),
            }),
        });
    }
    let nontrivial = ops.iter().filter(|o| matches!(o, Op::Edit { .. })).count() >= 1 && ops.iter().filter(|o| matches!(o, Op::Link { .. })).count() >= 2;
    let fingerprint = sha(format!("{:?}", ops).as_bytes());
    let sample = if idx % 50 == 1 || idx == 2 {
        Some(json!({"packages": proj.pkgs.iter().map(|p| json!({"name": p.name, "imports": p.imports.iter().map(|i| proj.pkgs[*i].name.clone()).collect::<Vec<_>>()})).collect::<Vec<_>>(), "history": res.stats.log, "findings": res.findings.len()}))
    } else {
        None
    };
    RunResult { violations, stats: res.stats, fingerprint, nontrivial, sample }
}

/// The i-th project of the fault-enumeration phase. Every second one has a long function
/// somewhere: its core nests deeper than the 128 levels below which JSON readers run with
/// their default limits.
fn enum_project(seed: u64, i: u64) -> Project {
    let (mut proj, _, _, _) = project_for(seed ^ 0xfeed, i);
    if i % 2 == 0 {
        if let Some(pk) = proj.pkgs.iter_mut().rev().find(|pk| !pk.fns.is_empty()) {
            pk.fns[0].noise = pk.fns[0].noise.max(90);
        }
    }
    proj
}

/// fault_enumeration sub-space: every JSON leaf/container of every artifact of a built project,
/// one single-field corruption each, offered to the operation that reads it.
fn enumerate_fields(sb: &Sandbox, proj: &Project, ev_fields: &mut u64, accepted: &mut Vec<Violation>, procs: &mut u64, name: &str, max_per_file: usize, seed: u64) {
    let n = proj.pkgs.len();
    let mut base: Vec<Op> = Vec::new();
    for pi in (0..n).rev() {
        base.push(Op::Build { p: pi, entropy: 11 + pi as u64, crash_at: None, use_alt_dir_first: false });
    }
    // learn pointer counts from a clean build
    let clean = run_history(sb, proj, &base, false);
    *procs += clean.stats.procs;
    let mut targets: Vec<(usize, bool, usize)> = Vec::new();
    for pi in 0..n {
        for core in [false, true] {
            let path = art_path(0, &proj.pkgs[pi].name, core);
            if let Some(b) = sb.read(&path) {
                if let Ok(doc) = serde_json::from_slice::<Value>(&b) {
                    let cnt = faults::all_pointers(&doc).len();
                    let step = (cnt / max_per_file.max(1)).max(1);
                    let mut k = (seed as usize) % step;
                    while k < cnt {
                        targets.push((pi, core, k));
                        k += step;
                    }
                }
            }
        }
    }
    // whole-file faults, once per artifact: bytes after the end of the document (a second
    // document, the tail of a longer older generation)
    for pi in 0..n {
        for core in [false, true] {
            sb.clear();
            let mut w_ops = base.clone();
            w_ops.push(Op::Corrupt { dir: 0, p: pi, core, fault: faults::ByteFault::TrailingGarbage });
            let reader = if core {
                Op::Link { cores: (0..n).map(|i| (0u8, i)).collect(), entropy: 5 }
            } else {
                match (0..n).find(|q| proj.pkgs[*q].imports.contains(&pi)) {
                    Some(q) => Op::Build { p: q, entropy: 6, crash_at: None, use_alt_dir_first: false },
                    None => continue,
                }
            };
            w_ops.push(reader);
            let res = run_history(sb, proj, &w_ops, false);
            *procs += res.stats.procs;
            *ev_fields += 1;
            for f in res.findings {
                accepted.push(Violation {
                    property: PROP.into(),
                    class: f.class.clone(),
                    key: f.key.clone(),
                    what: format!("{} [{}]", f.what, name),
                    replay: json!({"kind": "c15-field", "project": name, "ops": w_ops, "pointer_index": 0, "class": f.class, "key": f.key, "sources": crate::props::c13::files_json(&proj.render())}),
                });
            }
        }
    }
    for (pi, core, k) in targets {
        // corrupt exactly pointer #k, then let a reader look at the file
        sb.clear();
        let mut w_ops = base.clone();
        w_ops.push(Op::FieldCorrupt { dir: 0, p: pi, core, pick: k as u64 });
        // readers: interface -> a dependent's build (or check); core -> link
        let reader = if core {
            Op::Link { cores: (0..n).map(|i| (0u8, i)).collect(), entropy: 5 }
        } else {
            match (0..n).find(|q| proj.pkgs[*q].imports.contains(&pi)) {
                Some(q) => Op::Build { p: q, entropy: 6, crash_at: None, use_alt_dir_first: false },
                None => continue,
            }
        };
        w_ops.push(reader);
        let res = run_history_exact_pointer(sb, proj, &w_ops, k);
        *procs += res.stats.procs;
        *ev_fields += 1;
        if std::env::var("VERIF_DEBUG").is_ok() {
            eprintln!("ENUM {name} pkg={pi} core={core} k={k}: {:?} findings={}", &res.stats.log[res.stats.log.len().saturating_sub(2)..], res.findings.len());
        }
        for f in res.findings {
            accepted.push(Violation {
                property: PROP.into(),
                class: f.class.clone(),
                key: f.key.clone(),
                what: format!("{} [{}]", f.what, name),
                replay: json!({"kind": "c15-field", "project": name, "ops": w_ops, "pointer_index": k, "class": f.class, "key": f.key, "sources": crate::props::c13::files_json(&proj.render())}),
            });
        }
    }
}

/// Like run_history, but FieldCorrupt{pick} means "pointer number pick" (exhaustive enumeration).
fn run_history_exact_pointer(sb: &Sandbox, proj: &Project, ops: &[Op], _k: usize) -> HistoryResult {
    EXACT_POINTER.with(|c| c.set(true));
    let r = run_history(sb, proj, ops, false);
    EXACT_POINTER.with(|c| c.set(false));
    r
}

thread_local! {
    static EXACT_POINTER: std::cell::Cell<bool> = const { std::cell::Cell::new(false) };
}

pub fn run(opts: &Opts) -> i32 {
    let n = opts.n(1200, 25000);
    let mut ev = Evidence::new(
        PROP,
        "exploration",
        "histories of 5-40 operations {body-only edit, interface edit (add/rename function, parameter, field, variant, struct, enum, trait, trait method, impl, inherent method, derive), revert, check, build, link over any subset/order of cores} over generated 2-5 package workspaces, interleaved (3 of 4 histories) with storage faults: crash inside a build at syscall k, power loss (lost/torn un-synced writes), bit flip / truncation / trailing garbage / empty file, single-field JSON corruption, foreign-version artifacts with recomputed hash, stale restores, swaps, a shadowing interface directory; every history ends with a fault-free rebuild of every package in dependency order + link, first in place over whatever the history left in the store, then from an empty store (bounded liveness); after every fault-free successful check/build the stored artifacts are compared with what the same operation writes into an empty directory. A reference model (content-addressed registry of genuine artifacts and the interface identities they were built against) decides S1 unsafe link, S2 non-genuine artifact accepted, S3 hash faithful, L1 consistent set links and prints what its cores denote. Plus a fault_enumeration sub-space: single-field corruption of JSON nodes of every artifact of corpus and generated projects. distinct = distinct operation sequences; non-trivial = history with >= 1 edit and >= 2 links",
    );
    ev.components_real = harness::REAL_COMPONENTS.iter().map(|s| s.to_string()).collect();
    ev.components_stub = harness::STUB_COMPONENTS.iter().map(|s| s.to_string()).collect();
    ev.assumptions = vec![
        "every check/build is preceded by a fault-free shadow execution of the same command that teaches the model which bytes are genuine; bytes not in the registry are 'not genuine'".into(),
        "goml never calls fsync: power loss may turn each file written by the last build into {new, previous, empty, prefix}".into(),
        "generated edits keep the whole workspace well-typed; interface identity = everything a dependent can observe + identities of the interfaces it was built against".into(),
    ];
    let results = harness::parallel_with(
        n,
        opts.workers,
        |w| Sandbox::new(&format!("c15w{w}")).expect("sandbox"),
        |sb, i| check_history(sb, opts, i),
    );
    harness::print_run_digest(&results.iter().map(|r| sha(format!("{:?}{}", r.stats.log, r.violations.len()).as_bytes())).collect::<Vec<_>>());
    let mut violations = Vec::new();
    let mut anomalies: BTreeMap<String, u64> = BTreeMap::new();
    let mut ops_total = 0u64;
    for r in results {
        ev.evaluations += r.stats.procs;
        ops_total += r.stats.ops;
        if r.nontrivial {
            ev.distinct.insert(r.fingerprint);
        }
        for (k, v) in r.stats.fired {
            ev.fault(&k, v);
        }
        for (k, v) in r.stats.probes {
            ev.probe(k, v);
        }
        for a in r.stats.anomalies {
            *anomalies.entry(a.chars().take(160).collect()).or_insert(0) += 1;
        }
        if let Some(s) = r.sample {
            ev.sample(s);
        }
        violations.extend(r.violations);
    }
    // fault enumeration: JSON nodes of artifacts
    let mut fields = 0u64;
    let mut procs = 0u64;
    let per_file = if opts.tier == Tier::Quick { 40 } else { 100000 };
    let nproj = if opts.tier == Tier::Quick { 6 } else { 40 };
    let enum_results = harness::parallel_with(
        nproj,
        opts.workers,
        |w| Sandbox::new(&format!("c15e{w}")).expect("sandbox"),
        |sb, i| {
            let proj = enum_project(opts.seed, i as u64);
            let mut f = 0u64;
            let mut pr = 0u64;
            let mut acc = Vec::new();
            enumerate_fields(sb, &proj, &mut f, &mut acc, &mut pr, &format!("enum/{i}"), per_file, opts.seed);
            (f, pr, acc)
        },
    );
    for (f, pr, acc) in enum_results {
        fields += f;
        procs += pr;
        violations.extend(acc);
    }
    ev.evaluations += procs;
    // every crash point of a rebuild: short history (build all; interface edit of a package
    // with a dependent; rebuild it, killed at syscall k; link) for every k
    let ncrash = opts.n(12, 200);
    let crash_results = harness::parallel_with(
        ncrash,
        opts.workers,
        |w| Sandbox::new(&format!("c15k{w}")).expect("sandbox"),
        |sb, i| enumerate_crash_points(sb, opts.seed, i as u64),
    );
    let mut crash_points = 0u64;
    for (n, pr, found) in crash_results {
        crash_points += n;
        ev.evaluations += pr;
        violations.extend(found);
    }
    ev.fault("crash:every-syscall-of-a-rebuild", crash_points);
    ev.extra.insert("crash_points_enumerated".into(), json!(crash_points));
    // racing processes
    let nrace = opts.n(150, 6000);
    let races = harness::parallel_with(
        nrace,
        opts.workers.min(8),
        |w| Sandbox::new(&format!("c15r{w}")).expect("sandbox"),
        |sb, i| race_once(sb, opts.seed, i as u64),
    );
    let mut race_distinct = BTreeSet::new();
    let (mut race_ok, mut race_rejected, mut race_switches) = (0u64, 0u64, 0u64);
    for r in races.into_iter().flatten() {
        ev.evaluations += r.procs;
        race_distinct.insert(r.schedule_fp.clone());
        race_switches += r.switches as u64;
        if r.reader_ok {
            race_ok += 1;
        } else {
            race_rejected += 1;
        }
        if ev.samples.len() < 3 && r.switches > 4 {
            ev.sample(json!({"race": r.log}));
        }
        for f in r.findings {
            violations.push(Violation {
                property: PROP.into(),
                class: f.class.clone(),
                key: f.key.clone(),
                what: f.what.clone(),
                replay: json!({"kind": "c15-race", "race_index": r.idx, "project_seed": opts.seed, "class": f.class, "key": f.key, "log": r.log}),
            });
        }
    }
    ev.fault("schedule:racing-build-vs-reader", race_ok + race_rejected);
    ev.probe("race_reader_succeeded", race_ok);
    ev.probe("race_reader_rejected_torn_or_stale_input", race_rejected);
    ev.probe("race_context_switches", race_switches);
    ev.extra.insert("races".into(), json!(race_ok + race_rejected));
    ev.extra.insert("distinct_race_interleavings".into(), json!(race_distinct.len()));
    ev.extra.insert("histories".into(), json!(n));
    ev.extra.insert("operations".into(), json!(ops_total));
    ev.extra.insert("json_nodes_corrupted_one_by_one".into(), json!(fields));
    ev.extra.insert("json_node_enumeration_exhaustive".into(), json!(opts.tier == Tier::Thorough));
    ev.extra.insert("harness_anomalies".into(), json!(anomalies));
    ev.extra.insert("simulated_time".into(), json!("not applicable: no clock is read by the compiler; the logical clock is the operation / syscall sequence"));
    let nviol = violations.len();
    let outcome = harness::conclude(PROP, violations, opts, &harness::verify_in_fresh_process);
    ev.write(opts, outcome.unlisted as usize, nviol);
    println!(
        "C15 {}: {} histories, {} operations, {} simulated processes, {} JSON nodes corrupted one by one, {} violations ({} known), {:.1}s",
        opts.tier.name(),
        n,
        ops_total,
        ev.evaluations,
        fields,
        outcome.unlisted,
        outcome.known,
        ev.start.elapsed().as_secs_f64()
    );
    outcome.exit_code
}

pub fn replay(file: &Value) -> bool {
    let r = &file["replay"];
    let sb = Sandbox::new("c15replay").expect("sandbox");
    if r["kind"] == "c15-race" {
        let res = race_once(&sb, r["project_seed"].as_u64().unwrap_or(0), r["race_index"].as_u64().unwrap_or(0));
        let Some(res) = res else { return false };
        for l in &res.log {
            println!("  {l}");
        }
        for f in &res.findings {
            println!("replayed: {}", f.what);
        }
        let class = r["class"].as_str().unwrap_or("").to_string();
        let key = r["key"].clone();
        return res.findings.iter().any(|f| f.class == class && f.key == key);
    }
    let ops: Vec<Op> = match serde_json::from_value(r["ops"].clone()) {
        Ok(o) => o,
        Err(e) => {
            println!("replay: cannot decode ops: {e}");
            return false;
        }
    };
    let class = r["class"].as_str().unwrap_or("").to_string();
    let key = r["key"].clone();
    let res = if r["kind"] == "c15-field" {
        let name = r["project"].as_str().unwrap_or("enum/0");
        let i: u64 = name.rsplit('/').next().and_then(|x| x.parse().ok()).unwrap_or(0);
        let proj = enum_project(file["seed"].as_u64().unwrap_or(0), i);
        run_history_exact_pointer(&sb, &proj, &ops, 0)
    } else {
        let (ps, pi) = (r["project_seed"].as_u64().unwrap_or(0), r["project_index"].as_u64().unwrap_or(0));
        let (proj, _, _, _) = if r["leftover"] == true { project_for_history(ps, pi) } else { project_for(ps, pi) };
        run_history(&sb, &proj, &ops, r["final_phase"] == true)
    };
    for l in &res.stats.log {
        println!("  {l}");
    }
    for f in &res.findings {
        println!("replayed: {}", f.what);
    }
    res.findings.iter().any(|f| f.class == class && f.key == key)
}

#[allow(dead_code)]
fn unused(_: Files, _: u64) -> u64 {
    purpose("x")
}


// ---------------------------------------------------------------------------------------------
// racing processes: a `link` (or a dependent's `build`) overlaps a `build` at syscall granularity
// ---------------------------------------------------------------------------------------------

pub struct RaceResult {
    pub idx: u64,
    pub findings: Vec<Finding>,
    pub procs: u64,
    pub schedule_fp: String,
    pub switches: usize,
    pub reader_ok: bool,
    pub log: Vec<String>,
}

/// One race: the store holds a consistent old generation; package d gets an interface-changing
/// edit; `build d` runs concurrently with a reader (link of all cores, or build of a dependent),
/// both with small chunked I/O, under a seeded scheduler that picks who performs the next
/// sandbox syscall. Whatever the reader accepts must be made of genuine, mutually consistent
/// artifacts — torn or mixed-generation reads may only be rejected.
pub fn race_once(sb: &Sandbox, seed: u64, idx: u64) -> Option<RaceResult> {
    let mut p = Prng::derive(seed, idx, "c15-race");
    let (proj, _, _, _) = project_for(seed ^ 0xace0, idx);
    let n = proj.pkgs.len();
    // a package with a dependent
    let mut pairs = Vec::new();
    for c in 0..n {
        for &d in &proj.pkgs[c].imports {
            pairs.push((c, d));
        }
    }
    if pairs.is_empty() {
        return None;
    }
    let (c, d) = *p.pick(&pairs);
    let mut w = new_world(sb, &proj);
    for pi in (0..n).rev() {
        w.check_or_build(pi, 100 + pi as u64, true, None, false);
    }
    let old: Files = sb.snapshot().into_iter().filter(|(k, _)| k.starts_with("store/")).collect();
    // interface-changing edit of d; learn the new generation of d and of everything above it
    let edit = Edit::AddFn { p: d };
    w.apply(&Op::Edit { edit, uniq: 900 });
    w.check_or_build(d, 200, true, None, false);
    for pi in (0..n).rev() {
        if pi != d {
            w.check_or_build(pi, 300 + pi as u64, true, None, false);
        }
    }
    // put the old generation back: the race starts from a consistent old store
    for (k, v) in &old {
        sb.write(k, v);
    }
    let dn = w.name(d);
    let cn = w.name(c);
    let chunk = [16usize, 64, 256, 1024, 4096][p.usize(5)];
    let writer_args = {
        let files: Vec<String> = w.proj.pkg_files(d).iter().map(|f| sb.path(&format!("src/{f}"))).collect();
        let mut a = vec![s("goml"), s("build"), s("--package"), dn.clone(), s("--input")];
        a.extend(files);
        a.push(s("--interface-path"));
        a.push(sb.path("store"));
        a.push(s("--output"));
        a.push(sb.path(&format!("store/{dn}")));
        a
    };
    let reader_is_link = p.chance(1, 2);
    let reader_args = if reader_is_link {
        let cores: Vec<String> = (0..n).map(|i| format!("store/{}.core", w.name(i))).collect();
        ops::link_args(sb, &cores, "linked/main.go", &mut p)
    } else {
        let files: Vec<String> = w.proj.pkg_files(c).iter().map(|f| sb.path(&format!("src/{f}"))).collect();
        let mut a = vec![s("goml"), s("build"), s("--package"), cn.clone(), s("--input")];
        a.extend(files);
        a.push(s("--interface-path"));
        a.push(sb.path("store"));
        a.push(s("--output"));
        a.push(sb.path(&format!("race/{cn}")));
        a
    };
    let specs = vec![
        ProcSpec { entropy: p.next_u64(), readdir: 1, chunk, ..Default::default() },
        ProcSpec { entropy: p.next_u64(), readdir: 2, chunk, capture_reads: true, ..Default::default() },
    ];
    let bodies: Vec<Box<dyn FnOnce() -> anyhow::Result<crate::cli::CliOut> + Send>> = vec![
        Box::new(move || crate::cli::entry(&writer_args)),
        Box::new(move || crate::cli::entry(&reader_args)),
    ];
    let mut sched = Prng::new(p.next_u64());
    let (results, schedule) = crate::world::run_concurrent(&sb.root, specs, bodies, &mut sched, None);
    let mut log = vec![format!(
        "race: build {dn} (new interface) || {} with chunk={chunk}, {} scheduling decisions",
        if reader_is_link { "link all".to_string() } else { format!("build {cn}") },
        schedule.len()
    )];
    let reader = &results[1];
    let reader_ok = reader.exit == Exit::Ok;
    log.push(format!("writer -> {}, reader -> {}", results[0].exit.class(), reader.exit.class()));
    if let Exit::Panicked(m) = &reader.exit {
        w.st.anomalies.push(format!("reader panicked in a race: {m}"));
    }
    let mut findings = Vec::new();
    if reader_ok {
        if reader_is_link {
            // what the linker actually read
            let mut infos: Vec<ArtInfo> = Vec::new();
            for (key, bytes) in &reader.reads {
                if !key.contains(".core#") {
                    continue;
                }
                match w.genuine(bytes) {
                    Some(i) if i.core => infos.push(i.clone()),
                    _ => findings.push(Finding {
                        class: "torn-read-accepted".into(),
                        key: json!({"class": "torn-read-accepted", "by": "link"}),
                        what: format!("C15: `link` racing `build {dn}` accepted bytes of {} that are no genuine core (torn or mixed read)", key),
                        at_op: 0,
                    }),
                }
            }
            for cinfo in &infos {
                for (dep, want) in &cinfo.deps {
                    if let Some(dc) = infos.iter().find(|x| x.pkg == *dep) {
                        if dc.iface_id != *want {
                            findings.push(Finding {
                                class: "unsafe-link".into(),
                                key: json!({"class": "unsafe-link", "how": "race-mixed-generations"}),
                                what: format!("C15: `link` racing `build {dn}` succeeded on a mix of generations: {} was built against another interface of {dep}", cinfo.pkg),
                                at_op: 0,
                            });
                        }
                    }
                }
            }
        } else {
            // every interface the dependent's build actually read must be a genuine interface
            // (old or new generation) — a successful build on torn bytes is a violation
            for (key, bytes) in &reader.reads {
                if !key.contains(".interface#") {
                    continue;
                }
                match w.genuine(bytes) {
                    Some(i) if !i.core => {}
                    _ => findings.push(Finding {
                        class: "torn-read-accepted".into(),
                        key: json!({"class": "torn-read-accepted", "by": "build"}),
                        what: format!("C15: `build {cn}` racing `build {dn}` succeeded although it read bytes of {key} that are no genuine interface (torn or mixed read)"),
                        at_op: 0,
                    }),
                }
            }
        }
    }
    let mut switches = 0;
    for wv in schedule.windows(2) {
        if wv[0] != wv[1] {
            switches += 1;
        }
    }
    Some(RaceResult {
        idx,
        findings,
        procs: w.st.procs + 2,
        schedule_fp: sha(format!("{idx}:{:?}", schedule).as_bytes()),
        switches,
        reader_ok,
        log,
    })
}


/// For one generated workspace: build everything, change the interface of a package that has a
/// dependent, then rebuild that package killed at syscall k — for every k the fault-free rebuild
/// performs — and link the whole store each time. Whatever state the crash leaves behind
/// (interface old / empty / partial / new, core old / empty / partial / new), the link must
/// either be rejected or be a consistent link (the usual S1 / S2 checks of `link`).
fn enumerate_crash_points(sb: &Sandbox, seed: u64, idx: u64) -> (u64, u64, Vec<Violation>) {
    let (proj, _, _, _) = project_for(seed ^ 0xc4a5, idx);
    let n = proj.pkgs.len();
    let Some(d) = (1..n).find(|d| (0..n).any(|c| proj.pkgs[c].imports.contains(d))) else {
        return (0, 0, Vec::new());
    };
    let mut base: Vec<Op> = Vec::new();
    for pi in (0..n).rev() {
        base.push(Op::Build { p: pi, entropy: 21 + pi as u64, crash_at: None, use_alt_dir_first: false });
    }
    base.push(Op::Edit { edit: Edit::AddFn { p: d }, uniq: 555 });
    // how many syscalls does the rebuild perform?
    let mut probe = base.clone();
    probe.push(Op::Build { p: d, entropy: 99, crash_at: None, use_alt_dir_first: false });
    let pr = run_history(sb, &proj, &probe, false);
    let mut procs = pr.stats.procs;
    // the rebuild's syscall count is not exposed by the history; crash_at is taken modulo the
    // count inside check_or_build, so enumerating 0..K with K above any realistic count covers
    // every crash point (duplicates beyond the count wrap around and are harmless)
    let k_max = 48u32;
    let mut found = Vec::new();
    let mut points = 0u64;
    for k in 0..k_max {
        let mut ops = base.clone();
        ops.push(Op::Build { p: d, entropy: 99, crash_at: Some(k), use_alt_dir_first: false });
        ops.push(Op::Link { cores: (0..n).map(|i| (0u8, i)).collect(), entropy: 5 });
        // and the dependents rebuilt on top of whatever the crash left, then linked again
        for c in (0..n).rev() {
            if proj.pkgs[c].imports.contains(&d) {
                ops.push(Op::Build { p: c, entropy: 31 + c as u64, crash_at: None, use_alt_dir_first: false });
            }
        }
        ops.push(Op::Link { cores: (0..n).map(|i| (0u8, i)).collect(), entropy: 6 });
        let res = run_history(sb, &proj, &ops, false);
        procs += res.stats.procs;
        points += 1;
        for f in res.findings {
            found.push(Violation {
                property: PROP.into(),
                class: f.class.clone(),
                key: f.key.clone(),
                what: format!("{} [crash point {k} of a rebuild]", f.what),
                replay: json!({"kind": "c15", "project_seed": seed ^ 0xc4a5, "project_index": idx, "ops": ops, "final_phase": false, "class": f.class, "key": f.key}),
            });
        }
    }
    (points, procs, found)
}
