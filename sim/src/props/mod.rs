pub mod c13;
