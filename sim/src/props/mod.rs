pub mod c04;
pub mod c09;
pub mod c13;
pub mod c14;
pub mod c14fix;
pub mod c15;
pub mod c16;
