pub mod c09;
pub mod c13;
