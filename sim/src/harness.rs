//! Shared driver machinery: options, parallel workers, evidence files, violation reports,
//! replay files, known findings.

use serde_json::{Value, json};
use std::collections::{BTreeMap, BTreeSet};
use std::sync::Mutex;
use std::sync::atomic::{AtomicUsize, Ordering};
use std::time::Instant;

pub const VERIF_DIR: &str = "/verif";

#[derive(Clone, Copy, Debug, PartialEq, Eq)]
pub enum Tier {
    Quick,
    Thorough,
}
impl Tier {
    pub fn name(self) -> &'static str {
        match self {
            Tier::Quick => "quick",
            Tier::Thorough => "thorough",
        }
    }
}

#[derive(Clone, Debug)]
pub struct Opts {
    pub seed: u64,
    pub tier: Tier,
    pub workers: usize,
    /// multiplies the default run counts (for sweeps); 1.0 by default
    pub scale: f64,
    /// do not write evidence / replays (used by selfcheck and child processes)
    pub dry: bool,
}

impl Opts {
    pub fn from_env() -> Opts {
        let seed = std::env::var("VERIF_SEED").ok().and_then(|s| s.trim().parse::<u64>().ok()).unwrap_or(0);
        let tier = match std::env::var("VERIF_TIER").ok().as_deref() {
            Some("thorough") => Tier::Thorough,
            _ => Tier::Quick,
        };
        let workers = std::env::var("VERIF_WORKERS")
            .ok()
            .and_then(|s| s.parse().ok())
            .unwrap_or_else(|| std::thread::available_parallelism().map(|n| n.get()).unwrap_or(8));
        let scale = std::env::var("VERIF_SCALE").ok().and_then(|s| s.parse().ok()).unwrap_or(1.0);
        let dry = std::env::var("VERIF_DRY").is_ok();
        Opts { seed, tier, workers, scale, dry }
    }
    pub fn n(&self, quick: usize, thorough: usize) -> usize {
        let base = if self.tier == Tier::Quick { quick } else { thorough };
        ((base as f64) * self.scale).ceil().max(1.0) as usize
    }
}

/// Run `f(i)` for i in 0..n on `workers` threads; results in index order.
pub fn parallel<T: Send>(n: usize, workers: usize, f: impl Fn(usize) -> T + Sync) -> Vec<T> {
    let next = AtomicUsize::new(0);
    let out: Mutex<Vec<Option<T>>> = Mutex::new((0..n).map(|_| None).collect());
    std::thread::scope(|s| {
        for _ in 0..workers.max(1).min(n.max(1)) {
            s.spawn(|| {
                loop {
                    let i = next.fetch_add(1, Ordering::Relaxed);
                    if i >= n {
                        break;
                    }
                    let r = f(i);
                    out.lock().unwrap()[i] = Some(r);
                }
            });
        }
    });
    out.into_inner().unwrap().into_iter().map(|x| x.expect("worker result")).collect()
}

/// Like `parallel` but each worker thread owns a state created by `init` (e.g. a sandbox).
pub fn parallel_with<S, T: Send>(
    n: usize,
    workers: usize,
    init: impl Fn(usize) -> S + Sync,
    f: impl Fn(&mut S, usize) -> T + Sync,
) -> Vec<T> {
    let next = AtomicUsize::new(0);
    let out: Mutex<Vec<Option<T>>> = Mutex::new((0..n).map(|_| None).collect());
    std::thread::scope(|s| {
        for w in 0..workers.max(1).min(n.max(1)) {
            let next = &next;
            let out = &out;
            let init = &init;
            let f = &f;
            s.spawn(move || {
                let mut st = init(w);
                loop {
                    let i = next.fetch_add(1, Ordering::Relaxed);
                    if i >= n {
                        break;
                    }
                    let r = f(&mut st, i);
                    out.lock().unwrap()[i] = Some(r);
                }
            });
        }
    });
    out.into_inner().unwrap().into_iter().map(|x| x.expect("worker result")).collect()
}

// ---------------------------------------------------------------------------------------------
// violations, known findings, replay files
// ---------------------------------------------------------------------------------------------

#[derive(Clone, Debug)]
pub struct Violation {
    pub property: String,
    /// violation class, e.g. "nondeterministic-go"
    pub class: String,
    /// structural key used to match known findings (stable across seeds), e.g.
    /// {"class": "...", "where": "..."}
    pub key: Value,
    /// human-readable one-liner
    pub what: String,
    /// everything needed to re-execute (a pure function of this value and the code)
    pub replay: Value,
}

#[derive(Clone, Debug, serde::Deserialize)]
pub struct KnownEntry {
    pub property: String,
    pub status: String, // "known" | "fixed"
    pub key: Value,
    pub what: String,
    #[serde(default)]
    pub commit: Option<String>,
}

pub fn load_known() -> Vec<KnownEntry> {
    let p = format!("{VERIF_DIR}/known_findings.json");
    match std::fs::read_to_string(&p) {
        Ok(s) => serde_json::from_str(&s).unwrap_or_else(|e| {
            eprintln!("HARNESS ERROR: {p} does not parse: {e}");
            std::process::exit(2);
        }),
        Err(_) => Vec::new(),
    }
}

/// A known entry matches when every field of its key equals the violation's key field.
fn key_matches(known: &Value, got: &Value) -> bool {
    match (known, got) {
        (Value::Object(k), Value::Object(g)) => k.iter().all(|(name, v)| g.get(name) == Some(v)),
        _ => known == got,
    }
}

pub struct Report {
    pub property: String,
    pub violations: Vec<Violation>,
}

pub struct Outcome {
    pub exit_code: i32,
    pub unlisted: usize,
    pub known: usize,
}

fn digest(v: &Value) -> String {
    use sha2::Digest;
    hex::encode(&sha2::Sha256::digest(serde_json::to_vec(v).unwrap())[..8])
}

/// Deduplicate by key, match against known findings, write replay files, print lines.
/// `verify` re-executes a replay value and says whether the violation reproduces.
pub fn conclude(
    property: &str,
    violations: Vec<Violation>,
    opts: &Opts,
    verify: &dyn Fn(&Value) -> Result<bool, String>,
) -> Outcome {
    let known = load_known();
    let mut seen = BTreeSet::new();
    let mut unlisted = 0usize;
    let mut nknown = 0usize;
    let mut known_printed = BTreeSet::new();
    for v in violations {
        let kd = digest(&v.key);
        if !seen.insert(kd.clone()) {
            continue;
        }
        if let Some(k) = known.iter().find(|k| k.property == property && k.status == "known" && key_matches(&k.key, &v.key)) {
            if known_printed.insert(k.what.clone()) {
                println!("KNOWN-FINDING: property={} {}", property, k.what);
            }
            nknown += 1;
            continue;
        }
        unlisted += 1;
        if unlisted > 5 {
            // report at most five distinct violations per run in full
            println!("(further violation, not minimised/replayed: class={} {})", v.class, v.what.chars().take(200).collect::<String>());
            continue;
        }
        if opts.dry {
            println!("VIOLATION(dry) property={} class={} {}", property, v.class, v.what);
            continue;
        }
        let dir = format!("{VERIF_DIR}/replays");
        let _ = std::fs::create_dir_all(&dir);
        let path = format!("{dir}/{}-{}.json", property, kd);
        let file = json!({
            "property": property,
            "class": v.class,
            "key": v.key,
            "what": v.what,
            "seed": opts.seed,
            "tier": opts.tier.name(),
            "replay": v.replay,
        });
        std::fs::write(&path, serde_json::to_string_pretty(&file).unwrap()).expect("write replay");
        match verify(&file) {
            Ok(true) => {
                println!("{}", v.what);
                println!("VIOLATION property={} replay={}", property, path);
            }
            Ok(false) => {
                eprintln!("HARNESS ERROR: replay {path} did not reproduce the violation ({})", v.what);
                std::process::exit(2);
            }
            Err(e) => {
                eprintln!("HARNESS ERROR: replay {path} failed to run: {e}");
                std::process::exit(2);
            }
        }
    }
    Outcome { exit_code: if unlisted > 0 { 1 } else { 0 }, unlisted, known: nknown }
}

/// Re-run `sim replay <file>` in a fresh OS process; exit 1 + a VIOLATION line = reproduced.
pub fn verify_in_fresh_process(file: &Value) -> Result<bool, String> {
    let tmp = format!("/dev/shm/gv-replay-{}-{}.json", std::process::id(), digest(file));
    std::fs::write(&tmp, serde_json::to_vec(file).unwrap()).map_err(|e| e.to_string())?;
    let exe = std::env::current_exe().map_err(|e| e.to_string())?;
    let out = std::process::Command::new(exe)
        .arg("replay")
        .arg(&tmp)
        .env("VERIF_REPLAY_CHILD", "1")
        .output()
        .map_err(|e| e.to_string())?;
    let _ = std::fs::remove_file(&tmp);
    let stdout = String::from_utf8_lossy(&out.stdout);
    match out.status.code() {
        Some(1) if stdout.contains("VIOLATION") => Ok(true),
        Some(0) => Ok(false),
        other => Err(format!("replay exited with {:?}: {}{}", other, stdout, String::from_utf8_lossy(&out.stderr))),
    }
}

// ---------------------------------------------------------------------------------------------
// evidence
// ---------------------------------------------------------------------------------------------

pub struct Evidence {
    pub property: String,
    pub level: &'static str,
    pub start: Instant,
    pub evaluations: u64,
    pub distinct: BTreeSet<String>,
    pub rule: String,
    pub samples: Vec<Value>,
    pub faults_fired: BTreeMap<String, u64>,
    pub probes: BTreeMap<String, u64>,
    pub extra: BTreeMap<String, Value>,
    pub assumptions: Vec<String>,
    pub components_real: Vec<String>,
    pub components_stub: Vec<String>,
    pub exhaustive: Option<bool>,
}

impl Evidence {
    pub fn new(property: &str, level: &'static str, rule: &str) -> Evidence {
        Evidence {
            property: property.to_string(),
            level,
            start: Instant::now(),
            evaluations: 0,
            distinct: BTreeSet::new(),
            rule: rule.to_string(),
            samples: Vec::new(),
            faults_fired: BTreeMap::new(),
            probes: BTreeMap::new(),
            extra: BTreeMap::new(),
            assumptions: Vec::new(),
            components_real: Vec::new(),
            components_stub: Vec::new(),
            exhaustive: None,
        }
    }

    pub fn probe(&mut self, name: &str, n: u64) {
        *self.probes.entry(name.to_string()).or_insert(0) += n;
    }
    pub fn fault(&mut self, name: &str, n: u64) {
        *self.faults_fired.entry(name.to_string()).or_insert(0) += n;
    }
    pub fn faults_from(&mut self, fired: &[String]) {
        for f in fired {
            self.fault(f, 1);
        }
    }
    pub fn sample(&mut self, v: Value) {
        if self.samples.len() < 3 {
            self.samples.push(v);
        }
    }

    /// `violations` = violations not listed as known findings (what makes the check exit 1);
    /// `raw` = every violating case before matching against known_findings.json
    pub fn write(&self, opts: &Opts, violations: usize, raw: usize) {
        if opts.dry {
            return;
        }
        let wall = self.start.elapsed().as_secs_f64();
        let per_hour = if wall > 0.0 { (self.evaluations as f64 / wall * 3600.0) as u64 } else { 0 };
        let mut coverage = json!({
            "evaluations": self.evaluations,
            "distinct_nontrivial": self.distinct.len(),
            "rule": self.rule,
            "samples": self.samples,
            "runs_per_hour": per_hour,
            "faults_fired": self.faults_fired,
            "probes": self.probes,
            "components": {"real": self.components_real, "stub": self.components_stub},
            "workers": opts.workers,
        });
        if let Some(e) = self.exhaustive {
            coverage["exhaustive"] = json!(e);
        }
        for (k, v) in &self.extra {
            coverage[k] = v.clone();
        }
        coverage["known_finding_occurrences"] = json!(raw.saturating_sub(violations));
        let ev = json!({
            "property_id": self.property,
            "tier": opts.tier.name(),
            "seed": opts.seed,
            "level": self.level,
            "coverage": coverage,
            "assumptions": self.assumptions,
            "wall_s": wall,
            "violations": violations,
        });
        let dir = format!("{VERIF_DIR}/evidence");
        let _ = std::fs::create_dir_all(&dir);
        let path = format!("{dir}/{}.json", self.property);
        std::fs::write(&path, serde_json::to_string_pretty(&ev).unwrap()).expect("write evidence");
    }
}

/// Minimisation budget of a run: when a change breaks a property in hundreds of cases, only the
/// first few violations are minimised (the rest are reported as found); keeps a failing quick
/// check quick.
pub static SHRINKS_LEFT: std::sync::atomic::AtomicI64 = std::sync::atomic::AtomicI64::new(8);

pub fn may_shrink() -> bool {
    SHRINKS_LEFT.fetch_sub(1, Ordering::Relaxed) > 0
}

/// Fold per-case digests (in case order) into one run digest; printed when VERIF_DIGEST is set
/// (used by `sim selfcheck` to prove that a run is a pure function of the seed).
pub fn print_run_digest(case_digests: &[String]) {
    if std::env::var("VERIF_DIGEST").is_ok() {
        use sha2::Digest;
        let mut h = sha2::Sha256::new();
        for d in case_digests {
            h.update(d.as_bytes());
            h.update(b"\n");
        }
        println!("DIGEST {}", hex::encode(h.finalize()));
    }
}

pub const REAL_COMPONENTS: [&str; 6] = [
    "lexer, parser, CST/AST lowering, derive, HIR, typer, match compiler, mono, lift, ANF, Go backend, DCE, pretty printers (/repo working tree)",
    "pipeline::compile, package discovery, separate::{check_package, build_package, read_core, link_cores}, artifact hashing/validation",
    "CLI: clap definitions, execute_check/build/link, print_dumps, report_compilation_error (main.rs included textually)",
    "std::fs and std::collections::HashMap on top of the libc seams",
    "serde_json round trip of *.interface / *.core through real files",
    "tmpfs as byte store",
];
pub const STUB_COMPONENTS: [&str; 4] = [
    "CLI dispatch run_cli and the tail of execute_run (`go run`): replaced by entry/run_stub",
    "OS entropy (getrandom): simulator",
    "directory order, I/O errors, crashes, durability: simulator over tmpfs",
    "Go toolchain/runtime: absent; where behaviour is needed the emitted Go AST runs on the simulated Go runtime (gort)",
];
